#!/bin/sh
# development aid: run every thorough tier in sequence, one summary line each
for i in ${ORDER:-16 10 19 15 09 04 18 12 14 20 06 11 13 17 03 05 08 02 07 01}; do
  s=$(date +%s)
  nice -n 10 tools/check.sh C$i thorough > thorough_C$i.log 2>&1
  rc=$?
  e=$(date +%s)
  echo "C$i rc=$rc wall=$((e-s))s $(grep SUMMARY thorough_C$i.log | cut -d' ' -f4-12)"
done
