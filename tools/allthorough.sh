#!/bin/sh
# development aid: run every thorough tier in sequence, one summary line each
for i in 16 10 19 07 15 09 12 04 18 01 02 13 05 06 08 11 17 03 20 14; do
  s=$(date +%s)
  tools/check.sh C$i thorough > thorough_C$i.log 2>&1
  rc=$?
  e=$(date +%s)
  echo "C$i rc=$rc wall=$((e-s))s $(grep SUMMARY thorough_C$i.log | cut -d' ' -f4-12)"
done
