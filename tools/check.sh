#!/bin/sh
# usage: tools/check.sh <property id> <quick|thorough>
here=$(cd "$(dirname "$0")/.." && pwd)
cd "$here" || exit 3
/verif/tools/setup.sh >/dev/null 2>&1 || { echo "setup failed"; /verif/tools/setup.sh; exit 3; }
export VF_ROOT="$here"
export PYTHONPATH=${VF_REPO:+$VF_REPO:}$here
exec /verif/.venv/bin/python -m vf.run "$1" "${2:-quick}"
