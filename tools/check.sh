#!/bin/sh
# usage: tools/check.sh <property id> <quick|thorough>
cd /verif || exit 3
tools/setup.sh >/dev/null 2>&1 || { echo "setup failed"; tools/setup.sh; exit 3; }
export PYTHONPATH=${VF_REPO:+$VF_REPO:}/verif
exec /verif/.venv/bin/python -m vf.run "$1" "${2:-quick}"
