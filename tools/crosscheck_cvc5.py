#!/usr/bin/env python3
"""Development aid (DESIGN 2.2): run the ZS encodings through a second solver (cvc5 binary) and compare verdicts.
usage: /verif/.venv/bin/python tools/crosscheck_cvc5.py"""
import os
import subprocess
import sys
import tempfile

sys.path.insert(0, os.path.dirname(os.path.dirname(os.path.abspath(__file__))))
import z3  # noqa: E402

from vf import zs_regex  # noqa: E402
from vf.checks import c16  # noqa: E402


def cvc5(smt2, timeout=120):
    with tempfile.NamedTemporaryFile("w", suffix=".smt2", delete=False, dir="/var/tmp") as f:
        f.write("(set-logic ALL)\n" + smt2 + "\n(check-sat)\n")
        path = f.name
    try:
        p = subprocess.run(["cvc5", "--strings-exp", "--tlimit=%d" % (timeout * 1000), path], capture_output=True, text=True,
                           timeout=timeout + 10)
        out = (p.stdout + p.stderr).strip()
    except subprocess.TimeoutExpired:
        out = "timeout"
    finally:
        os.unlink(path)
    if "(error" in out:
        return "error: " + out[:200]
    return out.splitlines()[0] if out else "no output"


def queries():
    s = z3.String("s")
    for modname, attr in (("mashumaro.core.helpers", "UTC_OFFSET_PATTERN"), ("mashumaro.jsonschema.schema", "UTC_OFFSET_PATTERN")):
        import importlib

        pat = getattr(importlib.import_module(modname), attr)
        sol = z3.Solver()
        sol.add(z3.InRe(s, zs_regex.tzname_language()), z3.Not(z3.InRe(s, zs_regex.to_z3(pat))))
        yield "tz-inclusion:" + modname, sol
    # C16 per-character unit lemma
    S = z3.StringVal
    c = z3.String("c")
    use_double = z3.Bool("use_double")
    sol = z3.Solver()
    sol.add(z3.Or(*[c == S(ch) for ch in c16.ALPHABET.values() if ord(ch) < 0x10000]))
    sol.add(z3.Implies(use_double, c != S('"')))
    img = z3.If(c == S("\\"), S("\\\\"), z3.If(c == S("\n"), S("\\n"), z3.If(c == S("\r"), S("\\r"),
          z3.If(c == S("\x00"), S("\\x00"), z3.If(z3.And(c == S("'"), z3.Not(use_double)), S("\\'"), c)))))
    q = z3.If(use_double, S('"'), S("'"))
    sol.add(z3.Not(c16.lex_ok(img, q, c, 4)))
    yield "c16-repr-unit-lemma", sol
    s2 = z3.String("s")
    sol = z3.Solver()
    sol.add(z3.Length(s2) <= 2, z3.Length(s2) >= 1)
    sol.add(z3.Not(c16.lex_ok(s2, S("'"), s2, 2)))
    yield "c16-raw-selftest(|s|<=2)", sol


def main():
    bad = 0
    for name, sol in queries():
        r1 = str(sol.check())
        r2 = cvc5(sol.to_smt2().replace("(check-sat)", ""))
        agree = r1 == r2
        print("%-45s z3=%-7s cvc5=%-20s %s" % (name, r1, r2, "agree" if agree else "DISAGREE/INCONCLUSIVE"))
        bad += 0 if agree else 1
    sys.exit(1 if bad else 0)


if __name__ == "__main__":
    main()
