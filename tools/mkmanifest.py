#!/usr/bin/env python3
"""Regenerates /verif/MANIFEST.json from the table below (kept valid at all times)."""
import json

XH = "CrossHair 0.0.110 symbolic execution (z3 5.1.0) of the generated (de)serializers"
CHECKS = {
    "C01": dict(
        text="Bounded symbolic model checking: for every schema of the enumerated grammar the real generated "
             "to_dict/from_dict and codec encode/decode functions are executed symbolically by CrossHair over all "
             "values within the stated bounds; 'Confirmed over all paths' per obligation, reachability twin per "
             "harness, counterexamples replayed on the real code.",
        note="Trusted: CrossHair's Python model, z3; value pools for C-implemented leaf types; concrete dict keys; "
             "container length <= 2 (3 thorough); schemas enumerated (depth <= 3), not solver-quantified.",
        technique="symbolic execution of generated code (CrossHair/z3), bounded", ref="6 C01"),
}
PENDING = {
}
ALL = ["C%02d" % i for i in range(1, 21)]


def main():
    checks = []
    for pid in ALL:
        if pid not in CHECKS:
            continue
        c = CHECKS[pid]
        checks.append({
            "property_id": pid,
            "quick_cmd": "tools/check.sh %s quick" % pid,
            "thorough_cmd": "tools/check.sh %s thorough" % pid,
            "evidence_file": "/verif/evidence/%s.json" % pid,
            "replay_cmd_template": "tools/replay.sh {path}",
            "engine": "crosshair+z3",
            "level_claimed": {"category": "model_checking", "text": c["text"], "design_ref": c["ref"]},
            "level_note": c["note"],
            "technique": c["technique"],
        })
    na = []
    for pid in ALL:
        if pid not in CHECKS:
            na.append({"property_id": pid, "reason": PENDING.get(
                pid, "check not built yet in this session (planned, see DESIGN.md section 6); not claimed until it runs clean")})
    m = {
        "version": 1,
        "setup_cmd": "tools/setup.sh",
        "hooks": {
            "guard": "MASHUMARO_VERIF",
            "enable": "no source hooks: generated source is captured by a harness-side exec shim (module global), "
                      "everything else goes through public APIs; checks import /repo's working tree directly",
            "baseline_off_cmd": "cd /repo && /venv/bin/python -m pytest -ra -q -p no:cacheprovider --timeout=900 "
                                "--continue-on-collection-errors",
            "source_commits": [],
            "add_only": True,
        },
        "engines": [
            {"name": "crosshair", "path": "/verif/.venv/bin/crosshair", "serves_properties": sorted(CHECKS),
             "kind_free_text": XH},
            {"name": "z3", "path": "/verif/.venv (z3-solver 5.1.0 wheel)", "serves_properties": ["C01", "C06", "C16", "C17"],
             "kind_free_text": "direct z3 string/regex/int encodings for string kernels"},
        ],
        "checks": checks,
        "not_applicable": na,
        "notes": "All checks: tools/check.sh <id> <tier> -> vf/run.py -> vf/checks/<id>.py. Exit 0 held, 1 + VIOLATION "
                 "line for a replayed counterexample not in known_findings.json, 3 for harness/engine errors.",
    }
    with open("/verif/MANIFEST.json", "w") as f:
        json.dump(m, f, indent=1)


if __name__ == "__main__":
    main()
