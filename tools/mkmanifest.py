#!/usr/bin/env python3
"""Regenerates /verif/MANIFEST.json from the table below (kept valid at all times)."""
import json

XH = "CrossHair 0.0.110 symbolic execution (z3 5.1.0) of the generated (de)serializers"
GEN = ("Bounded symbolic model checking with CrossHair/z3: the real generated functions are executed symbolically; each "
       "obligation must come back 'Confirmed over all paths' within the stated bounds, each harness has a reachability twin "
       "that must be refuted, and every counterexample is replayed on the real code in a fresh interpreter before it is reported. ")
NOTE = ("Trusted: CrossHair's model of Python, z3; reference interpreters in vf/oracle.py (written from README); value pools "
        "for C-implemented leaf types; concrete dict keys with symbolic presence; stated container/position bounds; schemas and "
        "configurations are enumerated (programs), not solver-quantified. ")
T = "symbolic execution of generated code (CrossHair/z3), bounded"


def c(text, note="", ref="", technique=T):
    return dict(text=GEN + text, note=NOTE + note, technique=technique, ref=ref)


CHECKS = {
    "C01": c("Round trip decode(encode(v)) == v with identical classes for all conforming values of every schema of the grammar, "
             "through mixins and codecs.", ref="6 C01"),
    "C02": c("encode(v) equals an independent reference encoder (order- and type-exact) for all conforming values; basic-types-only "
             "output; format dialects observed through identity encoders.", "json.dumps replaced by its acceptance condition.", "6 C02"),
    "C03": c("decode(d) vs independent reference decoder + exact-class conformance for arbitrary JSON-like input at the root / "
             "field position.", "Scalars of arbitrary inputs come from boundary pools chosen by solver-controlled selectors.", "6 C03"),
    "C04": c("Format codecs with the C transport replaced by its contract (identity): round trip and document-vs-basic-form "
             "for all values; wiring of every format method incl. orjson_options forwarding.",
             "The format libraries themselves are C code and OUTSIDE; they run on boundary values and on every replayed model "
             "as stub validation only.", "6 C04"),
    "C05": c("Outcome of from_dict on corrupted inputs (non-dicts, one or two arbitrary fields, missing keys, extra keys) equals the "
             "first-failing-field model; input unchanged.", ref="6 C05"),
    "C07": c("Absent keys take the default / a fresh factory result, present keys win, non-constructor members are never read, for "
             "every subset of present keys of every enumerated field layout.", ref="6 C07"),
    "C08": c("to_dict under every enumerated option vector equals PROJECT(o, plain) for all instance values and keyword flags.",
             ref="6 C08"),
    "C09": c("from_dict result/exception equals KEYMODEL for every subset of candidate keys (names, aliases, shadowed aliases, "
             "strangers, literals harvested from the generated source) under every alias-source assignment.", ref="6 C09"),
    "C10": c("Resolution functions run on 14 symbolic presence bits return the lexicographic minimum; end-to-end tagged classes "
             "for enumerated subsets agree.", ref="6 C10"),
    "C06": c("The real jsonschema Draft 2020-12 validator runs symbolically on jsonify(encode(v)) against the schema built by the real "
             "build_json_schema for both dialects; required = exactly the fields without defaults.",
             "jsonify stub validated against json.loads(json.dumps()) on replays.", "6 C06"),
    "C12": c("Fresh class hierarchy per path; solver-chosen event histories (define class / decode tag / create decoder) and an "
             "inductive step from an arbitrary invariant-satisfying cached registry, for Config, Annotated and codec wiring.",
             "Classes cannot be symbolic: histories are realised selectors, the payload of the last decode is symbolic.", "6 C12"),
    "C13": c("Isolation of dialect caches under solver-chosen earlier uses vs a freshly built default-dialect class; Dialect.merge "
             "option lattice; uniformity of every format codec with BasicEncoder for symbolic values.", ref="6 C13"),
    "C14": c("Lazy / postponed families vs a fresh eager twin under solver-chosen operation histories; last operation on symbolic "
             "data.", "Thread schedules are OUTSIDE the claim (CrossHair is single-threaded).", "6 C14"),
    "C15": c("All entry points (mixin, codec, nested in List/Dict/Tuple/Optional, dataclass field) agree for all values; "
             "interference operations between evaluations.", "One-shot encode()/decode() compared on concrete representatives only.",
             "6 C15"),
    "C16": c("z3 string encoding of Python short-string-literal lexing applied to the splice templates re-extracted from the "
             "generated source on every run; per-character escape-unit lemma for repr templates; models and per-class probes "
             "replayed on the real builder.", "Lexing MODEL, not CPython's C tokenizer; homomorphism assumption validated by probes.",
             "6 C16", technique="direct z3 string/regex encoding of the splice-and-lex kernel, bounded; replay on real builder"),
    "C17": c("Arbitrary inputs over a family of awkward classes (same-named locals, functional/dynamic classes, non-importable "
             "names) so that error paths run: no NameError/own AttributeError, class identity; z3 search for sanitised-name "
             "collisions; static closure cross-check.", ref="6 C17"),
    "C18": c("Identity-graph intersection of value and encoding equals the sharing predicted from the type hints and the "
             "no_copy_collections set; object and decode input unchanged.", ref="6 C18"),
    "C19": c("Recorded hook trace equals the pre/post-order traversal for all lengths / union members / None-ness, through mixin, "
             "codec and format mixins (identity transport), with context forwarding.", ref="6 C19"),
    "C20": c("Configuration cube and build sequences realised from solver selectors (finite cube, enumerated exhaustively); "
             "metaschema validity, closed refs, model round trip; JSONSchema model round trip on symbolic documents.",
             "Types/configurations cannot be symbolic: the solver enumerates the cube; stated in the evidence.", "6 C20"),
    "C11": c("Union/Optional/Literal decode equals REF_UNION_DECODE for arbitrary input, encode equals the member's encoding.",
             "Union-order reading documented in DESIGN.md.", "6 C11"),
}
PENDING = {
}
ALL = ["C%02d" % i for i in range(1, 21)]


def main():
    checks = []
    for pid in ALL:
        if pid not in CHECKS:
            continue
        c = CHECKS[pid]
        checks.append({
            "property_id": pid,
            "quick_cmd": "tools/check.sh %s quick" % pid,
            "thorough_cmd": "tools/check.sh %s thorough" % pid,
            "evidence_file": "/verif/evidence/%s.json" % pid,
            "replay_cmd_template": "tools/replay.sh {path}",
            "engine": "crosshair+z3",
            "level_claimed": {"category": "model_checking", "text": c["text"], "design_ref": c["ref"]},
            "level_note": c["note"],
            "technique": c["technique"],
        })
    na = []
    for pid in ALL:
        if pid not in CHECKS:
            na.append({"property_id": pid, "reason": PENDING.get(
                pid, "check not built yet in this session (planned, see DESIGN.md section 6); not claimed until it runs clean")})
    m = {
        "version": 1,
        "setup_cmd": "tools/setup.sh",
        "hooks": {
            "guard": "MASHUMARO_VERIF",
            "enable": "no source hooks: generated source is captured by a harness-side exec shim (module global), "
                      "everything else goes through public APIs; checks import /repo's working tree directly",
            "baseline_off_cmd": "cd /repo && /venv/bin/python -m pytest -ra -q -p no:cacheprovider --timeout=900 "
                                "--continue-on-collection-errors",
            "source_commits": [],
            "add_only": True,
        },
        "engines": [
            {"name": "crosshair", "path": "/verif/.venv/bin/crosshair", "serves_properties": sorted(CHECKS),
             "kind_free_text": XH},
            {"name": "z3", "path": "/verif/.venv (z3-solver 5.1.0 wheel)", "serves_properties": ["C01", "C06", "C16", "C17"],
             "kind_free_text": "direct z3 string/regex/int encodings for string kernels"},
        ],
        "checks": checks,
        "not_applicable": na,
        "notes": "All checks: tools/check.sh <id> <tier> -> vf/run.py -> vf/checks/<id>.py. Exit 0 held, 1 + VIOLATION "
                 "line for a replayed counterexample not in known_findings.json, 3 for harness/engine errors.",
    }
    with open("/verif/MANIFEST.json", "w") as f:
        json.dump(m, f, indent=1)


if __name__ == "__main__":
    main()
