#!/usr/bin/env python3
"""Re-resolve the commit hashes of 'fixed' entries in known_findings.json from their commit subjects (development aid)."""
import json
import re
import subprocess

SUBJ = {
    "C01": "parse_timezone lost the sign", "C09": "read fields without alias from key", "C05": "forbid_extra_keys let AttributeError",
    "C13": "Dialect.merge dropped", "C02": "omit_none ignored None", "C06": "bounded Unpack", "C20": "raised KeyError for defaulted fields",
    "C19": "codec union packer tried", "C11": "codec union packer tried", "C16": "spliced into the generated code unescaped",
    "C17": "bound the wrong class, or an unresolvable name",
}
p = "/verif/known_findings.json"
d = json.load(open(p))
for e in d["entries"]:
    if e.get("status") != "fixed":
        continue
    subj = e.get("commit_subject")
    if not subj:
        if e["property"] == "C08":
            subj = "omit_none ignored None" if "omit_none ignored" in e["what"] else "lazily compiled classes failed"
        elif e["property"] == "C14":
            subj = "lost the type arguments" if "generic" in e["what"] else "lazily compiled classes failed"
        else:
            subj = SUBJ[e["property"]]
        e["commit_subject"] = subj
    h = subprocess.check_output(["git", "-C", "/repo", "log", "--format=%h", "--grep", subj, "-1"], text=True).strip()
    assert h, subj
    old = e.get("commit")
    e["commit"] = h
    if old and old != h:
        e["what"] = e["what"].replace(old, h)
json.dump(d, open(p, "w"), indent=1)
print("ok")
