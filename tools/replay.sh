#!/bin/sh
# usage: tools/replay.sh /verif/replays/<id>-<hash>.json  -- re-executes the recorded concrete call on /repo
cd /verif || exit 3
tools/setup.sh >/dev/null 2>&1
export PYTHONPATH=/verif
exec /verif/.venv/bin/python - "$1" <<'PY'
import json, subprocess, sys
d = json.load(open(sys.argv[1]))
mod = d.get("module_copy") or d.get("module")
if not d.get("call"):
    print(json.dumps(d, indent=1)); sys.exit(0)
p = subprocess.run(["/verif/.venv/bin/python", "/verif/vf/replay.py", mod, d["call"]], capture_output=True, text=True)
print(p.stdout.strip()); sys.exit(0)
PY
