#!/usr/bin/env python3
"""Evaluate one seeded change: tools/seedeval.py <prop> <m1|m2> [check ids...]
Confirms in a scratch worktree that (a) the demo fails with the change and passes without, (b) the existing test suite
passes with the change; then runs the named checks (default: the property's own) against that worktree (VF_REPO) and
records everything in /verif/seeded/<prop>_<m>/."""
import json
import os
import re
import shutil
import subprocess
import sys
import time


def sh(cmd, cwd=None, env=None, timeout=3600):
    p = subprocess.run(cmd, shell=True, cwd=cwd, env=env, capture_output=True, text=True, timeout=timeout)
    return p.returncode, p.stdout + p.stderr


def main():
    prop, m = sys.argv[1], sys.argv[2]
    checks = sys.argv[3:] or [prop]
    skip_tests = os.environ.get("SEED_SKIP_TESTS") == "1"
    rnd = os.environ.get("SEED_ROUND", "")
    src = ("/tmp/seed/o%s_%s" % (rnd, prop)) if rnd else ("/tmp/seed/out_%s" % prop)
    sid = "%s_%s%s" % (prop, ("r%s" % rnd) if rnd else "", m)
    tag = "ev_" + sid
    wt = "/tmp/seed/%s" % tag
    dest = "/verif/seeded/%s" % sid
    os.makedirs(dest, exist_ok=True)
    if os.path.exists(src + "/%s.diff" % m):
        shutil.copy(src + "/%s.diff" % m, dest + "/patch.diff")
        shutil.copy(src + "/%s_demo.py" % m, dest + "/demo.py")
    sh("git -C /repo worktree remove --force %s" % wt)
    rc, out = sh("git -C /repo worktree add -q --detach %s HEAD" % wt)
    assert rc == 0, out
    meta = {"property": prop, "id": sid, "base_commit": sh("git -C /repo rev-parse --short HEAD")[1].strip()}
    try:
        rc, out = sh("git apply %s/patch.diff" % dest, cwd=wt)
        meta["applies"] = rc == 0
        if rc != 0:
            meta["apply_error"] = out[-500:]
            return meta
        shutil.copy(dest + "/demo.py", wt + "/_demo.py")
        rc_m, out_m = sh("/venv/bin/python _demo.py", cwd=wt, timeout=600)
        os.remove(wt + "/_demo.py")
        shutil.copy(dest + "/demo.py", "/tmp/seed/_demo_%s.py" % tag)
        rc_c, out_c = sh("/venv/bin/python /tmp/seed/_demo_%s.py" % tag, cwd="/repo", timeout=600)
        os.remove("/tmp/seed/_demo_%s.py" % tag)
        meta["demo_with_change"] = {"rc": rc_m, "tail": out_m[-300:]}
        meta["demo_without_change"] = {"rc": rc_c, "tail": out_c[-200:]}
        if not skip_tests:
            t0 = time.time()
            rc_t, out_t = sh("/venv/bin/python -m pytest -q -p no:cacheprovider --timeout=900 -x 2>&1 | tail -3", cwd=wt)
            meta["tests_with_change"] = {"rc": rc_t, "tail": out_t[-300:], "wall_s": round(time.time() - t0)}
        meta["checks"] = {}
        for c in checks:
            env = dict(os.environ, VF_REPO=wt, VF_TAG=tag)
            t0 = time.time()
            rc_k, out_k = sh("tools/check.sh %s quick" % c, cwd=os.environ.get("VF_EVAL_ROOT", "/verif"), env=env)
            sigs = []
            for ln in out_k.splitlines():
                mm = re.match(r"VIOLATION property=\S+ replay=(\S+)", ln)
                if mm:
                    try:
                        sigs.append(json.load(open(mm.group(1))).get("signature"))
                    except Exception:
                        pass
            summ = [ln for ln in out_k.splitlines() if ln.startswith("SUMMARY")]
            meta["checks"][c] = {"rc": rc_k, "caught": rc_k == 1, "signatures": sorted(set(sigs))[:8],
                                 "summary": summ[-1] if summ else out_k[-300:], "wall_s": round(time.time() - t0)}
        meta["caught_by"] = [c for c, v in meta["checks"].items() if v["caught"]]
        return meta
    finally:
        sh("git -C /repo worktree remove --force %s" % wt)
        shutil.rmtree("%s/.work/%s" % (os.environ.get("VF_EVAL_ROOT", "/verif"), tag), ignore_errors=True)
        old = {}
        if os.path.exists(dest + "/meta.json"):
            try:
                old = json.load(open(dest + "/meta.json"))
            except Exception:
                old = {}
        if skip_tests and "tests_with_change" in old:
            meta["tests_with_change"] = old["tests_with_change"]
        if old.get("status"):
            meta["status"] = old["status"]
        hist = old.get("history", [])
        if old.get("checks"):
            hist.append({"at": old.get("evaluated_at"), "caught_by": old.get("caught_by")})
        meta["history"] = hist
        try:
            meta["what"] = json.load(open("/verif/seeded/descriptions.json")).get(meta["id"], "")
        except Exception:
            pass
        if os.path.exists(src + "/%s.diff.orig" % m):
            meta["ported"] = "the agent's diff no longer applied after the fix: commits; the same change was re-made on the current HEAD"
        meta["evaluated_at"] = time.strftime("%Y-%m-%dT%H:%M:%S")
        json.dump(meta, open(dest + "/meta.json", "w"), indent=1)
        print(json.dumps({k: meta.get(k) for k in ("id", "applies", "caught_by")}),
              "demo(with)=%s demo(without)=%s tests=%s" % (
                  meta.get("demo_with_change", {}).get("rc"), meta.get("demo_without_change", {}).get("rc"),
                  meta.get("tests_with_change", {}).get("rc")))


if __name__ == "__main__":
    main()
