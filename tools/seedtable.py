#!/usr/bin/env python3
"""Regenerates DESIGN.md section 12 (which checks catch which seeded changes) from /verif/seeded/*/meta.json."""
import glob
import json
import os
import re

DESC = json.load(open("/verif/seeded/descriptions.json")) if os.path.exists("/verif/seeded/descriptions.json") else {}
rows = []
for f in sorted(glob.glob("/verif/seeded/*/meta.json")):
    m = json.load(open(f))
    notes = ""
    np = os.path.join(os.path.dirname(f), "notes.txt")
    if os.path.exists(np):
        notes = open(np).read().strip().replace("\n", " ")
    ok = (m.get("demo_with_change", {}).get("rc") not in (0, None) and m.get("demo_without_change", {}).get("rc") == 0
          and m.get("tests_with_change", {}).get("rc") == 0)
    hist = [h for h in m.get("history", []) if h.get("caught_by") is not None]
    first = hist[0]["caught_by"] if hist else m.get("caught_by")
    rnd = "1" if "_r" not in m["id"] else m["id"].split("_r")[1][0]
    rows.append((m["id"], (m.get("what") or DESC.get(m["id"]) or notes)[:260], "yes" if ok else "NO: " + str(m.get("status", "not confirmed")),
                 ("yes" if first else "no") if len(hist) else "=", ", ".join(m.get("caught_by") or []) or "-", ", ".join(sorted(m.get("checks", {}))),
                 "; ".join(sorted({s for c in m.get("checks", {}).values() for s in c.get("signatures", [])}))[:160]))
out = ["## 12. Seeded changes and the checks that catch them", "",
       "Each change was written by a fresh sub-agent that saw only the property text and its own scratch worktree. `confirmed` = "
       "I re-checked in a scratch worktree that the demonstration fails with the change and passes without it and that the "
       "existing test suite passes with it. Checks were run against the worktree (`VF_REPO`), quick tier. `caught by` lists the "
       "checks that exited 1 with a VIOLATION line.", "",
       "| id | change / what it needs to manifest | confirmed | first pass | caught by (final) | checks run (last pass) | violation signatures |",
       "|----|------------------------------------|-----------|------------|-------------------|------------------------|----------------------|"]
for r in rows:
    out.append("| " + " | ".join(x.replace("|", "\\|") for x in r) + " |")
caught = sum(1 for r in rows if r[4] != "-" and r[2] == "yes")
valid = sum(1 for r in rows if r[2] == "yes")
out += ["", "%d of %d confirmed changes are caught by at least one quick check." % (caught, valid), "",
        "`first pass`: `=` the change was evaluated once; `yes` / `no` whether the checks as they stood when the change was first "
        "evaluated caught it (a `no` followed by a non-empty `caught by` means the check was strengthened afterwards). Per round "
        "(confirmed changes only):", ""]
for rnd in ("1", "2", "3", "5"):
    rr = [r for r in rows if (("_r" + rnd) in r[0] if rnd != "1" else "_r" not in r[0]) and r[2] == "yes"]
    if rr:
        fp = sum(1 for r in rr if r[3] in ("=", "yes") and r[4] != "-")
        fin = sum(1 for r in rr if r[4] != "-")
        out.append("* round %s: %d confirmed changes, %d caught on the first pass, %d after strengthening" % (rnd, len(rr), fp, fin))
out.append("")
p = "/verif/DESIGN.md"
s = open(p).read()
i = s.find("## 12. Seeded changes")
if i >= 0:
    s = s[:i]
open(p, "w").write(s.rstrip("\n") + "\n\n" + "\n".join(out))
print("\n".join(out[-3:]))
