#!/bin/sh
# Build the overlay venv used by every check (idempotent, offline).
set -e
V=/verif/.venv
if [ ! -x "$V/bin/crosshair" ] || ! "$V/bin/python" -c "import crosshair, jsonschema, mashumaro, z3" 2>/dev/null; then
  rm -rf "$V"
  /venv/bin/python -m venv "$V"
  SP=$("$V/bin/python" -c "import sysconfig; print(sysconfig.get_paths()['purelib'])")
  printf '/venv/lib/python3.12/site-packages\n/repo\n' > "$SP/verif_overlay.pth"
  PIP_NO_INDEX=1 "$V/bin/pip" install -q --no-index --find-links /opt/veriftools/wheels crosshair-tool jsonschema z3-solver >/dev/null
fi
"$V/bin/python" -c "import crosshair, jsonschema, mashumaro, z3; assert mashumaro.__file__.startswith('/repo/'), mashumaro.__file__"
