"""Arbitrary JSON-like input as a plan.  Measured: symbolic int/float flowing through the cross-coercions
int(float), str(int), str(float) never confirm, and symbolic str into parsers never confirms; so scalars come from
boundary pools through solver-chosen selectors, while the tag, the length, key presence and the choice of each child
remain solver variables.  Cost is linear in the root pool and quadratic in the (smaller) child pool."""
from .hlib import pick
from .symval import Node

TAGS = ("scalar", "list", "dict")
INF = float("inf")
NAN = float("nan")

ROOT_SCALARS = [None, True, False, 0, 1, -3, 7, 2 ** 63, 0.0, 1.5, -2.0, 1e20, INF, NAN,
                "", "5", "-3", "abc", "1.5", " 7 ", "nan", "inf", "True", "UTC", "UTC+03:00", "UTC-00:30", "UTC+24:00",
                "2020-01-02", "2020-01-02T03:04:05", "03:04:05", "k0", "a", "red", "None", "é"]
CHILD_SCALARS = [None, True, 0, -3, 1.5, "", "5", "abc"]
DICT_CHILD_SCALARS = [None, 7, "5", "abc"]


class Child(Node):
    def __init__(self, ctx, extra, base=None):
        base = CHILD_SCALARS if base is None else base
        self.vals = list(base) + [x for x in extra if x not in base]
        self.n = len(self.vals) + 2
        self.sel = ctx.new("k", "int", "0 <= $ < %d" % self.n)

    def make(self, env):
        j = pick(env[self.sel], self.n)
        if j == len(self.vals):
            return []
        if j == len(self.vals) + 1:
            return {}
        return self.vals[j]


class Arb(Node):
    def __init__(self, ctx, strs, keys, maxlen=2, child_extra=()):
        self.keys = keys
        self.scalars = list(ROOT_SCALARS) + [s for s in strs if s not in ROOT_SCALARS]
        self.tag = ctx.new("k", "int", "0 <= $ < 3")
        self.s = ctx.new("k", "int", "0 <= $ < %d" % len(self.scalars))
        self.n = ctx.new("n", "int", "0 <= $ <= %d" % maxlen)
        self.items = [Child(ctx, child_extra) for _ in range(maxlen)]
        self.flags = [ctx.new("p", "bool") for _ in keys]
        self.vals = [Child(ctx, child_extra[:1], base=DICT_CHILD_SCALARS) for _ in keys]

    def make(self, env):
        t = pick(env[self.tag], 3)
        if t == 0:
            return self.scalars[pick(env[self.s], len(self.scalars))]
        if t == 1:
            n = pick(env[self.n], len(self.items) + 1)
            return [self.items[j].make(env) for j in range(n)]
        d = {}
        for k, fl, v in zip(self.keys, self.flags, self.vals):
            if env[fl]:
                d[k] = v.make(env)
        return d
