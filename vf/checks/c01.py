"""C01 check: enumerates schemas, renders harnesses, runs them."""
from vf import gen, runner, schemas

ASSUMPTIONS = [
    "CrossHair 0.0.110 model of Python (ints as mathematical integers, floats as reals, str model) and z3 5.1.0",
    "values of C-implemented leaf types (datetime, date, time, timedelta, timezone, ZoneInfo, UUID, Decimal, Fraction, "
    "ip*, Path, Pattern, bytes, bytearray) range over boundary pools (vf/symval.py POOLS), not over all values",
    "dict keys are concrete (pool of <=2 per key type); presence of each key is symbolic",
    "container length <= bound; symbolic str length <= 3; NaN excluded; float positions are finite reals",
    "schemas are enumerated from the grammar in vf/schemas.py (depth <= 3), not quantified by the solver",
    "unions whose members share a wire form, regex flags, named time zones are excluded as the property states",
]


def harnesses(tier, seed):
    hs = []
    skipped = []
    maxlen = 2 if tier == "quick" else 3
    for s in schemas.grammar(tier, seed):
        if "lossy_union" in s.tags or "lossy_eq" in s.tags:
            continue
        for variant in ("codec", "field"):
            if variant == "codec" and "fieldonly" in s.tags:
                continue
            try:
                hs.append(gen.value_harness("C01", "c01", s, variant, "Bounds(maxlen=%d)" % maxlen))
            except Exception as e:
                skipped.append((s.name, variant, repr(e)[:200]))
    return hs, skipped


def tz_results():
    from vf import zs_regex

    out = []
    for where, pat, verdict, witness, dt in zs_regex.check_tz_patterns():
        r = {"name": "L(tzname) subset of L(%s)" % where, "harness": "zs", "smt_checks": 1, "smt_time": dt, "paths": 1}
        if where == "reachability-twin":
            r.update(kind="twin", final="witness" if verdict == "sat" else "harness_error",
                     msg="inclusion correctly fails for a pattern without '-': witness %r" % (witness,), replays=0)
        elif verdict == "unsat":
            r.update(kind="main", final="discharged", msg="z3: every tzname text matches %r" % pat)
        elif verdict == "sat":
            r.update(kind="main", final="violation", sig="C01/tzname-text-not-accepted-by-pattern", call="parse_timezone(%r)" % witness,
                     detail={"pattern": pat, "text": witness}, msg="tzname can produce %r which %s rejects" % (witness, where))
        else:
            r.update(kind="main", final="inconclusive", msg="z3: %s (%s)" % (verdict, witness))
        out.append(r)
    return out


def run(tier, seed):
    hs, skipped = harnesses(tier, seed)
    hs.append(gen.custom_harness("C01", "tzlemma", schemas.Schema("tzlemma", "int", ""), "lemma"))
    extra = tz_results()
    for name, variant, err in skipped:
        extra.append({"name": "build:%s:%s" % (name, variant), "harness": "generator", "kind": "main",
                      "final": "harness_error", "msg": err})
    to = 90 if tier == "quick" else 200
    return runner.run_property(
        "C01", hs, tier, seed, to,
        bounds={"maxlen": 2 if tier == "quick" else 3, "str_len": 3, "schema_depth": 3, "schemas": len(hs)},
        assumptions=ASSUMPTIONS,
        functions_note=["generated __mashumaro_to_dict__/__mashumaro_from_dict__ of every schema class",
                        "generated codec encode/decode and their __pack_*/__unpack_* helpers",
                        "mashumaro.core.helpers.parse_timezone (leaf lemma L-TZ on symbolic digits; UTC_OFFSET_PATTERN as a z3 regular "
                        "language, inclusion L(tzname) in L(pattern))"],
        extra_results=extra)
