from vf import gen, runner, schemas
from vf.checks.c01 import ASSUMPTIONS as A1

ASSUMPTIONS = A1[:5] + [
    "REF_ENCODE (vf/oracle.py) is an independent interpreter of the type hints written from README.md; it calls the "
    "same CPython leaf functions (isoformat, total_seconds, encodebytes, str)",
    "format dialects: the mixins' to_jsonb/to_msgpack/to_toml are called with an identity encoder so that the dict built "
    "under OrjsonDialect/MessagePackDialect/TOMLDialect is observed; json.dumps itself (C) is replaced by its documented "
    "acceptance condition basic_only(), validated against the real json.dumps on every replayed model",
]


def harnesses(tier, seed):
    hs, skipped = [], []
    maxlen = 2 if tier == "quick" else 3
    gr = schemas.grammar(tier, seed)
    for s in gr:
        variants = ["codec", "field"]
        d2 = s.name.startswith("C_") and s.name.rsplit("_", 1)[-1] in schemas.D2_LEAVES
        if s.name.startswith(("L_", "X_")) or (tier != "quick" and d2):
            variants += ["orjson", "msgpack", "toml"]
        for variant in variants:
            if variant == "codec" and "fieldonly" in s.tags:
                continue
            fs = [t for t in s.tags if t.startswith("fmtself:")]
            if fs and variant not in ("codec", "field", fs[0].split(":")[1]):
                continue
            try:
                hs.append(gen.value_harness("C02", "c02", s, variant, "Bounds(maxlen=%d, chain_wrap=True)" % maxlen,
                                            setup_kwargs="has_any=%r" % ("any" in s.tags)))
            except Exception as e:
                skipped.append((s.name, variant, repr(e)[:200]))
    return hs, skipped


def run(tier, seed):
    hs, skipped = harnesses(tier, seed)
    extra = [{"name": "build:%s:%s" % (n, v), "harness": "generator", "kind": "main", "final": "harness_error", "msg": e}
             for n, v, e in skipped]
    return runner.run_property(
        "C02", hs, tier, seed, 120 if tier == "quick" else 200,
        bounds={"maxlen": 2 if tier == "quick" else 3, "str_len": 3, "schema_depth": 3, "schemas": len(hs)},
        assumptions=ASSUMPTIONS,
        functions_note=["generated __mashumaro_to_dict__ / to_jsonb / to_msgpack / to_toml of every schema class",
                        "generated codec encode functions and __pack_* helpers"],
        extra_results=extra)
