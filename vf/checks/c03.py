from vf import gen, runner, schemas

ASSUMPTIONS = [
    "CrossHair 0.0.110 model of Python and z3 5.1.0",
    "input = arbitrary JSON-like value: tag in {None,bool,int,float,str,list,dict}, ints/floats/bools symbolic, "
    "strings from a pool (generic strings + valid encodings of every leaf type of the schema) through a selector because "
    "symbolic str into int()/float()/fromisoformat never confirms; list length <= 2; dict keys concrete (field names, "
    "TypedDict keys, strangers) with symbolic presence; nesting depth 1 below the position (2 thorough)",
    "REF_DECODE / CONFORMS (vf/oracle.py) written from README.md; union order reading: exact-type scalar members first, "
    "then non-scalar members in declaration order, then scalar coercions (documented in DESIGN.md 6 C11)",
    "deep valid inputs (harnesses *_deep): d = REF_ENCODE(T, v) for a symbolic conforming value v of every structured schema "
    "(dataclass / NamedTuple / TypedDict somewhere); the implementation's packer is not involved",
    "schemas enumerated from the grammar, not solver-quantified",
]


def harnesses(tier, seed):
    hs, skipped = [], []
    gr = schemas.leaf_schemas() + schemas.depth2(["int", "mix"] if tier == "quick" else schemas.D2_LEAVES) + schemas.extras(tier)
    field_too = {"L_int", "L_date", "L_mix", "L_nt", "L_td", "L_gen_int", "L_lit", "L_color", "L_timezone", "L_plain"}
    for s in gr:
        if "stype" in s.tags:
            continue
        for variant in ("codec", "field"):
            if variant == "codec" and "fieldonly" in s.tags:
                continue
            if tier == "quick" and variant == "field" and s.name not in field_too:
                continue
            try:
                hs.append(gen.custom_harness("C03", "c03", s, variant, "depth=1", "depth=1"))
            except Exception as e:
                skipped.append((s.name, variant, repr(e)[:200]))
    # deep valid inputs: REF_ENCODE(v) for a symbolic conforming v (structured schemas, where depth-1 inputs are all rejected)
    deep = [s for s in schemas.leaf_schemas() + schemas.extras(tier)
            if "stype" not in s.tags and "fieldonly" not in s.tags and structured(s)]
    if tier != "quick":
        deep += [s for s in schemas.depth2(["mix", "nt", "td"]) if "stype" not in s.tags and "fieldonly" not in s.tags]
    for s in deep:
        for variant in (("codec",) if tier == "quick" else ("codec", "field")):
            try:
                hs.append(gen.value_harness("C03", "c03v", s, variant, "Bounds(maxlen=1)" if tier == "quick" else "Bounds(maxlen=2)",
                                            name_suffix="_deep", timeout=180 if tier == "quick" else 400))
            except Exception as e:
                skipped.append((s.name, variant + "_deep", repr(e)[:200]))
    return hs, skipped


def structured(s):
    """schemas with a dataclass / NamedTuple / TypedDict somewhere"""
    from vf import tinfo
    from vf.props.c06 import _walk_types

    ns = gen.build_ns(s.prelude)
    T = eval(s.texpr, ns)
    try:
        return any(ti.kind in ("dataclass", "namedtuple", "typeddict") for ti in _walk_types(T, set()))
    except Exception:
        return False


def run(tier, seed):
    hs, skipped = harnesses(tier, seed)
    extra = [{"name": "build:%s:%s" % (n, v), "harness": "generator", "kind": "main", "final": "harness_error", "msg": e}
             for n, v, e in skipped]
    return runner.run_property(
        "C03", hs, tier, seed, 60 if tier == "quick" else 200,
        bounds={"arb_depth": 1, "list_len": 2, "dict_keys": 3, "positions": "root of codec, field of wrapper"},
        assumptions=ASSUMPTIONS,
        functions_note=["generated __mashumaro_from_dict__ of every schema class", "generated codec decode functions and "
                        "__unpack_* helpers", "mashumaro.core.helpers.parse_timezone"],
        extra_results=extra)
