from vf import gen, runner
from vf.props import c04 as P
from vf.schemas import COMMON_PRELUDE, Schema

ASSUMPTIONS = [
    "CrossHair 0.0.110 model of Python and z3 5.1.0",
    "(a) FOR ALL VALUES (bounded as in C01) with the C transport replaced by its contract: identity encoder/decoder through the "
    "public encoder=/decoder=/post_encoder_func/pre_decoder_func parameters; ORJSONEncoder/TOMLEncoder, which have none, are "
    "constructed while a shim object is bound in mashumaro.codecs.<fmt>; orjson's documented native rendering of date/time/UUID "
    "as text is applied before decoding. Claims: decode_F(encode_F(v)) == v with identical classes, and the document equals the "
    "basic form modulo the format's declared native types and TOML's omission of nulls",
    "(b) wiring: one class with every format mixin -- each method under its own name, to_dict not overwritten, orjson_options "
    "(symbolic int, given or defaulted from Config) forwarded to the encoder as option=",
    "(c) the real libraries (orjson, msgpack, PyYAML C loader, json accelerator, tomli_w/tomllib) are C code: no engine here "
    "encodes them. They run on boundary values at harness import and on every replayed solver model (one per harness at least, the "
    "twin's) -- counted as traces_validated_against_impl, NOT a for-all claim. The libraries' own losslessness is OUTSIDE",
    "representable subset: string map keys, 64-bit-safe pooled ints are not forced (ints are symbolic only under the identity "
    "transport), TOML: no nulls inside arrays, required null fields excluded",
]
TYPES = {
    "int": "int", "str": "str", "float": "float", "bool": "bool", "date": "datetime.date", "datetime": "datetime.datetime",
    "time": "datetime.time", "uuid": "UUID", "bytes": "bytes", "bytearray": "bytearray", "decimal": "Decimal", "color": "Color",
    "opt_int": "Optional[int]", "list_date": "List[datetime.date]", "dict_str_int": "Dict[str, int]", "mix": "Mix",
    "tuple": "Tuple[int, str]", "nt": "NT", "td": "TDict", "timedelta": "datetime.timedelta", "list_bytes": "List[bytes]",
    "dict_uuid": "Dict[str, UUID]", "plain": "Plain", "gen_date": "Gen[datetime.date]", "fset": "FrozenSet[int]",
    "opt_date": "Optional[datetime.date]", "union": "Union[int, str]", "path": "PurePosixPath", "ip": "IPv4Address",
    "selfref": "SelfRef", "optd": "OptD", "self_toml": "SelfT", "self_msgpack": "SelfM", "self_orjson": "SelfO",
}
QUICK = ["int", "str", "date", "datetime", "uuid", "bytes", "opt_int", "list_date", "dict_str_int", "mix", "tuple", "td",
         "list_bytes", "gen_date", "opt_date", "float", "selfref", "self_toml", "self_msgpack", "self_orjson"]


def harnesses(tier, seed):
    hs, skipped = [], []
    names = QUICK if tier == "quick" else list(TYPES)
    for fmt in P.FORMATS:
        for n in names:
            for variant in ("mixin", "codec", "mixin_lazy"):
                if tier == "quick" and variant == "codec" and n not in ("date", "bytes", "mix", "list_date", "opt_int", "uuid"):
                    continue
                if variant == "mixin_lazy" and n not in ("date", "bytes", "mix", "opt_int", "selfref", "list_bytes"):
                    continue
                if n.startswith("self_") and (n != "self_" + fmt or variant != "mixin"):
                    continue
                s = Schema("%s_%s" % (fmt, n), TYPES[n], COMMON_PRELUDE)
                try:
                    hs.append(gen.value_harness("C04", "c04", s, variant, "Bounds(maxlen=2)", setup_kwargs="fmt=%r" % fmt))
                except Exception as e:
                    skipped.append((s.name, variant, repr(e)[:200]))
    hs.append(gen.custom_harness("C04", "c04", Schema("wiring", "int", ""), "wiring"))
    return hs, skipped


def run(tier, seed):
    hs, skipped = harnesses(tier, seed)
    extra = [{"name": "build:%s:%s" % (n, v), "harness": "generator", "kind": "main", "final": "harness_error", "msg": e}
             for n, v, e in skipped]
    return runner.run_property(
        "C04", hs, tier, seed, 120 if tier == "quick" else 300,
        bounds={"formats": P.FORMATS, "types": len(QUICK if tier == "quick" else TYPES), "maxlen": 2},
        assumptions=ASSUMPTIONS,
        functions_note=["generated to_<format>/from_<format> mixin methods and per-format nested methods", "format codec encode/decode "
                        "wrappers", "format dialects (OrjsonDialect, MessagePackDialect, TOMLDialect)"],
        extra_results=extra)
