import itertools

from vf import gen, runner
from vf.schemas import Schema

PRELUDE = '''
class Color(Enum):
    RED = "red"
    GREEN = "green"

@dataclass
class Inner(DataClassDictMixin):
    p: int
    q: Optional[str] = None

@dataclass
class D1(DataClassDictMixin):
    a: int
    b: datetime.date
    c: List[int] = field(default_factory=list)
    d: Optional[Inner] = None

@dataclass
class D2(DataClassDictMixin):
    a: int
    e: Color = Color.RED
    l: Literal["x", 2] = "x"
    class Config(BaseConfig):
        forbid_extra_keys = True

@dataclass
class D3(DataClassDictMixin):
    a: int = field(metadata={"alias": "A"})
    u: Union[int, None, datetime.date] = 0
    t: Tuple[int, str] = (1, "x")
    class Config(BaseConfig):
        aliases = {"t": "T"}
        forbid_extra_keys = True
        allow_deserialization_not_by_alias = True

@dataclass
class D5(DataClassDictMixin):
    raw: Any = field(metadata={"alias": "RAW"})
    n: int = field(metadata={"alias": "N"})
    p: str = field(metadata={"alias": "P", "deserialize": pass_through})
    k: Optional[Any] = field(default=5, metadata={"alias": "K"})
    class Config(BaseConfig):
        allow_deserialization_not_by_alias = True

@dataclass
class D6(DataClassDictMixin):
    y: int = field(metadata={"alias": "Y"})
    hidden: int = field(init=False, default=0)
    w: Any = None
    class Config(BaseConfig):
        allow_deserialization_not_by_alias = True
        forbid_extra_keys = True

class TDK(TypedDict):
    k: int

class NTI(NamedTuple):
    x: int
    label: str = "origin"
    inner: Optional[Inner] = None
    td: Optional[TDK] = None

@dataclass
class D7(DataClassDictMixin):
    p: NTI
    n: int = 0

class NTJ(NamedTuple):
    # defaults + a member whose own decoder can raise IndexError (a too short pair)
    b: Tuple[int, int] = (0, 0)
    w: int = 1

@dataclass
class D8(DataClassDictMixin):
    s: NTJ
    n: int = 0

@dataclass(kw_only=True)
class D9(DataClassDictMixin):
    # keyword-only: a defaulted field may precede required ones; the FIRST bad field in declaration order decides
    q: int = 1
    item: str
    price: float
    z: Optional[int] = None

class NTL(NamedTuple):
    low: int = 0
    step: int = 1

@dataclass
class D10(DataClassDictMixin):
    lim: NTL = field(metadata={"deserialize": "as_dict"})
    n: int = 0

@dataclass
class D4:
    a: float
    m: Dict[str, int]
    i: Inner
'''
CLASSES = {"D1": ["a", "b", "c", "d"], "D2": ["a", "e", "l"], "D3": ["a", "u", "t"], "D4": ["a", "m", "i"],
           "D5": ["raw", "n", "p"], "D6": ["y", "w"], "D7": ["p"], "D8": ["s"], "D9": ["q", "item"], "D10": ["lim"]}

ASSUMPTIONS = [
    "CrossHair 0.0.110 model of Python and z3 5.1.0",
    "input: non-dict root values from a pool of 6, or a dict whose fields are each present/absent (symbolic); the one or two "
    "fields named in the obligation carry an arbitrary child value (pool of scalars incl. valid leaf encodings, [] and {}), the "
    "others the reference encoding of a symbolic conforming value; one stranger key with symbolic presence",
    "outcome model: first failing field in declaration order (vf/oracle.py decode_dataclass), written from README.md",
    "schemas D1-D4 enumerated (nested holder, forbid_extra_keys, aliases, non-mixin dataclass through BasicDecoder)",
]


def harnesses(tier, seed):
    hs = []
    for cname, fields in CLASSES.items():
        variant = "codec" if cname == "D4" else "mixin"
        subsets = [(f,) for f in fields]
        if tier != "quick":
            subsets += list(itertools.combinations(fields, 2))
        elif cname == "D1":
            subsets += [("a", "b"), ("b", "d"), ("a", "c")]
        elif cname == "D9":
            subsets += [("q", "item"), ("q", "price"), ("item", "z")]
        for bad in subsets:
            s = Schema(cname, cname, PRELUDE)
            kw = "bad=%r" % (tuple(bad),)
            hs.append(gen.custom_harness("C05", "c05", s, variant, kw, kw, name_suffix="_" + "_".join(bad)))
    return hs


def run(tier, seed):
    hs = harnesses(tier, seed)
    return runner.run_property(
        "C05", hs, tier, seed, 150 if tier == "quick" else 300,
        bounds={"bad_fields_at_once": 2, "child_pool": "8 scalars + leaf encodings + [] + {}", "list_len": 1},
        assumptions=ASSUMPTIONS,
        functions_note=["generated __mashumaro_from_dict__ of D1-D4, Inner; codec decode for D4; union/literal unpackers"])
