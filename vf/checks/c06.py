from vf import gen, runner, schemas
from vf.schemas import COMMON_PRELUDE, Schema

ASSUMPTIONS = [
    "CrossHair 0.0.110 model of Python and z3 5.1.0; the real jsonschema Draft202012Validator (pure Python) is executed "
    "symbolically on the instance -- no validator model of ours",
    "instance = jsonify(encode(v)) with encode = BasicEncoder(T, default_dialect=serialize_by_alias); jsonify is the pure-Python "
    "image of json.loads(json.dumps(.)) and is compared with the real pair on every replayed model",
    "value space as in C01 (symbolic scalars/None-ness/lengths/selectors/presence, pooled C-implemented leaf types, concrete keys)",
    "schemas built by the real build_json_schema at import for {DRAFT_2020_12, OPEN_API_3_1} x {all_refs False, True}; for OpenAPI "
    "the collected definitions are embedded at #/components/schemas so that $refs resolve; 'format' is an annotation in 2020-12 "
    "and not asserted; types whose schema building raises NotImplementedError are outside (C20 covers totality)",
]
EXTRA_PRELUDE = COMMON_PRELUDE + '''
@dataclass
class Al(DataClassDictMixin):
    a: int = field(metadata={"alias": "A"})
    b: Optional[str] = None
    c: List[int] = field(default_factory=list)
    n: Optional[Plain] = None
    class Config(BaseConfig):
        aliases = {"b": "B"}

@dataclass
class Al2(DataClassDictMixin):
    a: int = field(metadata={"alias": "A"})
    b: int = field(default=1, metadata={"alias": "B"})
    c: Annotated[int, Alias("CA")] = 2
    class Config(BaseConfig):
        aliases = {"a": "cfgA", "b": "cfgB", "c": "cfgC", "d": "cfgD"}
    d: int = 3

@dataclass
class NtMix(DataClassDictMixin):
    a: NT = field(metadata={"serialize": "as_list", "deserialize": "as_list"})
    b: NT = NT(1, "x")
    class Config(BaseConfig):
        namedtuple_as_dict = True

@dataclass
class NtMix2(DataClassDictMixin):
    a: NT = field(metadata={"serialize": "as_dict", "deserialize": "as_dict"})
    b: NT = NT(1, "x")

@dataclass
class NtList(DataClassDictMixin):
    # the field-level engine applies to the field's own value, not to the items of a collection
    a: List[NT] = field(metadata={"serialize": "as_list", "deserialize": "as_list"})
    o: Optional[NT] = field(default=None, metadata={"serialize": "as_list", "deserialize": "as_list"})
    class Config(BaseConfig):
        namedtuple_as_dict = True

@dataclass
class NtList2(DataClassDictMixin):
    a: Dict[str, NT] = field(metadata={"serialize": "as_dict", "deserialize": "as_dict"})
    t: Tuple[NT, int] = field(default=(NT(1, "x"), 2), metadata={"serialize": "as_dict", "deserialize": "as_dict"})

@dataclass
class InitF(DataClassDictMixin):
    x: int
    y: int = field(init=False, default=3)
    z: List[str] = field(init=False, default_factory=list)

@dataclass
class TwoGen(DataClassDictMixin):
    x: Gen[int]
    y: Gen[str]

def _mk(name, ft):
    return dataclasses.make_dataclass(name, [("v", ft)])
SameA = _mk("Same", int)
SameB = _mk("Same", str)

@dataclass
class TwoSame:
    p: SameA
    q: SameB
'''
EXTRA = [("ntmix", "NtMix"), ("ntmix2", "NtMix2"), ("al", "Al"), ("al2", "Al2"), ("lit_1_true", "Literal[1, True]"), ("lit_0_false", "Literal[0, False, 'off']"),
         ("lit_true_1", "Literal[True, 1, 2]"), ("twogen", "TwoGen"), ("twosame", "TwoSame"), ("dict_int", "Dict[int, str]"),
         ("dict_bool", "Dict[bool, int]"), ("dict_float", "Dict[float, int]"), ("dict_enum", "Dict[Num, int]"),
         ("tstar3", "Tuple[int, Unpack[Tuple[str, str]], float]"), ("tstar4", "Tuple[Unpack[Tuple[int, ...]], str]"),
         ("nt_list", "List[NT]"), ("opt_gen", "Optional[Gen[int]]"), ("lit_bytes", "Literal[b'x', 'y']"),
         ("ntlist", "NtList"), ("ntlist2", "NtList2"), ("initf", "InitF"), ("initf_list", "List[InitF]"),
         # variadic parts of Any (the item schema is absent, the length is still unbounded), nested unpacks
         ("tstar_any", "Tuple[int, Unpack[Tuple[Any, ...]]]"), ("tstar_any_head", "Tuple[Unpack[Tuple[Any, ...]], int]"),
         ("tstar_any_mid", "Tuple[str, Unpack[Tuple[Any, ...]], int]"), ("tstar_empty", "Tuple[int, Unpack[Tuple[()]]]"),
         ("tvar_any", "Tuple[Any, ...]"), ("list_tstar_any", "List[Tuple[int, Unpack[Tuple[Any, ...]]]]")]


def probe(s, variant):
    """build the schema once in the generator process: unsupported types are skipped, crashes are reported"""
    from vf.props import c06 as P

    ns = gen.build_ns(s.prelude)
    T = eval(s.texpr, ns)
    dialect, all_refs = P.VARIANTS[variant]
    P.build_json_schema(T, dialect=dialect, all_refs=all_refs)


def harnesses(tier, seed):
    hs, skipped = [], []
    gr = schemas.leaf_schemas() + schemas.depth2(["int", "mix"] if tier == "quick" else None) + schemas.extras(tier)
    gr += [Schema("E_" + n, t, EXTRA_PRELUDE) for n, t in EXTRA]
    variants = ["d2020", "oapi"] if tier == "quick" else ["d2020", "d2020_refs", "oapi", "oapi_inline"]
    for s in gr:
        if "stype" in s.tags or "fieldonly" in s.tags:
            continue
        if "selfref" in s.name or "_self_" in s.name:
            continue  # typing.Self is not supported by the schema generator at all (raises TypeError): outside C06, see C20
        for variant in variants:
            has_dc = any(k in s.texpr for k in ("Mix", "Plain", "Inh", "Gen", "Al", "Two", "NT", "TDict", "OptD", "Lvl", "Nt", "OuterG", "InitF"))
            if variant in ("d2020_refs", "oapi_inline") and not has_dc:
                continue
            if tier == "quick" and variant == "oapi" and not any(
                    k in s.texpr for k in ("Mix", "Plain", "Inh", "Gen", "Al", "Two", "NT", "TDict", "OptD", "SelfRef", "Lvl", "Nt", "OuterG", "InitF")):
                continue  # without dataclasses the OpenAPI variant differs from Draft 2020-12 only in the dialect URI
            try:
                probe(s, variant)
                hs.append(gen.value_harness("C06", "c06", s, variant, "Bounds(maxlen=2)"))
            except (NotImplementedError, AssertionError) as e:
                pass  # the schema generator cannot build this type at all: outside C06 (totality is C20's subject)
            except Exception as e:
                skipped.append((s.name, variant, repr(e)[:300]))
    return hs, skipped


def run(tier, seed):
    hs, skipped = harnesses(tier, seed)
    extra = [{"name": "build:%s:%s" % (n, v), "harness": "generator", "kind": "main", "final": "harness_error", "msg": e}
             for n, v, e in skipped]
    from vf.checks.c01 import tz_results
    for r in tz_results():
        if "jsonschema" in r["name"] or r["kind"] == "twin":
            if r.get("sig"):
                r["sig"] = "C06/timezone-pattern-rejects-tzname-text"
            extra.append(r)
    return runner.run_property(
        "C06", hs, tier, seed, 60 if tier == "quick" else 200,
        bounds={"maxlen": 2, "schemas": len(hs), "variants": 2 if tier == "quick" else 4},
        assumptions=ASSUMPTIONS,
        functions_note=["jsonschema.Draft202012Validator.is_valid (real validator, symbolic instance)",
                        "generated codec encode functions", "mashumaro.jsonschema.build_json_schema (at import, concrete)"],
        extra_results=extra)
