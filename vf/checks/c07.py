import itertools

from vf import gen, runner
from vf.schemas import Schema

ASSUMPTIONS = [
    "CrossHair 0.0.110 model of Python and z3 5.1.0",
    "per constructor field: presence flag and conforming value are solver variables (ints/strs symbolic, None-ness symbolic, "
    "list length <= 1, pooled leaf types cut to 2 values); keys named after init=False / ClassVar / InitVar members carry a sentinel",
    "default model: dataclasses.fields(): default or a fresh default_factory(); freshness = two decodes of the same input share no "
    "factory-made container",
    "layouts enumerated (vf/checks/c07.py): every order of <= 4 field kinds out of {required, default, default None, nullable "
    "with non-None default, factory} + kw_only, KW_ONLY sentinel, init=False, InitVar, ClassVar, inheritance with overridden "
    "default, slots, aliases",
]

KINDS = {
    "r": "{n}: int",
    "d": "{n}: int = 5",
    "n": "{n}: Optional[int] = None",
    "o": "{n}: Optional[str] = 'dflt'",
    "f": "{n}: List[int] = field(default_factory=list)",
    "D": "{n}: datetime.date = datetime.date(2000, 1, 1)",
    "z": "{n}: Optional[int] = 0",
    "e": "{n}: Optional[datetime.date] = datetime.date(2000, 1, 1)",
}


def layout_src(kinds, name="L"):
    # required fields cannot follow defaulted ones unless kw_only
    lines = ["@dataclass", "class %s(DataClassDictMixin):" % name]
    seen_default = False
    for j, k in enumerate(kinds):
        decl = KINDS[k].format(n="x%d" % j)
        if k == "r" and seen_default:
            decl = "x%d: int = field(kw_only=True)" % j
        if k != "r":
            seen_default = True
        lines.append("    " + decl)
    return "\n".join(lines) + "\n"


SPECIAL = {
    "kwonly": '''
@dataclass
class L(DataClassDictMixin):
    a: int
    b: int = 2
    _: KW_ONLY
    c: int
    d: List[int] = field(default_factory=list)
''',
    "kwonly_cls": '''
@dataclass(kw_only=True)
class L(DataClassDictMixin):
    a: int = 1
    b: int
    c: Optional[int] = 3
''',
    "noninit": '''
@dataclass
class L(DataClassDictMixin):
    a: int
    x: int = field(init=False, default=9)
    cv: ClassVar[int] = 1
    iv: InitVar[int] = 0
    b: int = 2
    y: List[int] = field(init=False, default_factory=list)
    def __post_init__(self, iv):
        pass
''',
    "inherit": '''
@dataclass
class Base(DataClassDictMixin):
    a: int
    b: int = 2
    l: List[int] = field(default_factory=list)

@dataclass
class L(Base):
    b: int = 20
    c: Optional[int] = 30
''',
    "inherit_plain_parent": '''
@dataclass
class Base:
    a: int = 1
    m: Dict[str, int] = field(default_factory=dict)

@dataclass
class L(Base, DataClassDictMixin):
    a: int = 10
    z: str = "z"
''',
    "inherit3": '''
@dataclass
class Base(DataClassDictMixin):
    a: int
    port: int
    z: int

@dataclass
class Mid(Base):
    port: int = 80
    z: int = field(default=5, kw_only=True)

@dataclass
class L(Mid):
    extra: Optional[str] = None
''',
    "inherit_none_default": '''
@dataclass
class Base(DataClassDictMixin):
    a: int
    q: Optional[int] = 3

@dataclass
class Mid(Base):
    q: Optional[int] = None

@dataclass
class L(Mid):
    w: List[int] = field(default_factory=list)
''',
    "reannotated": '''
@dataclass
class Base(DataClassDictMixin):
    r: Optional[int] = 3
    items: List[int] = field(default_factory=list)
    name: str = "n"

@dataclass
class L(Base):
    r: int          # annotated again without a value: dataclasses keeps the parent's default 3
''',
    "slots": '''
@dataclass(slots=True)
class L(DataClassDictMixin):
    a: int
    b: Optional[int] = 7
    c: List[int] = field(default_factory=list)
''',
    "aliases": '''
@dataclass
class L(DataClassDictMixin):
    a: int = field(metadata={"alias": "A"})
    b: int = field(default=2, metadata={"alias": "B"})
    c: Optional[int] = None
    class Config(BaseConfig):
        aliases = {"c": "C"}
''',
    "non_mixin": '''
@dataclass
class L:
    a: int
    b: int = 2
    c: Optional[List[int]] = None
    d: Dict[str, int] = field(default_factory=dict)
''',
}


def harnesses(tier, seed):
    hs = []
    maxn = 3 if tier == "quick" else 4
    layouts = []
    for n in range(1, maxn + 1):
        for kinds in itertools.product("rdnofDze", repeat=n):
            layouts.append(kinds)
    import random

    rnd = random.Random(seed)
    if tier == "quick":
        small = [k for k in layouts if len(k) <= 2]
        big = [k for k in layouts if len(k) == 3]
        rnd.shuffle(big)
        layouts = small + big[:30]
    else:
        small = [k for k in layouts if len(k) <= 3]
        big = [k for k in layouts if len(k) == 4]
        rnd.shuffle(big)
        layouts = small + big[:500]
    for kinds in layouts:
        s = Schema("LAY_" + "".join(kinds), "L", "from dataclasses import KW_ONLY\n" + layout_src(kinds))
        hs.append(gen.custom_harness("C07", "c07", s, "mixin"))
    for name, src in SPECIAL.items():
        s = Schema("SP_" + name, "L", "from dataclasses import KW_ONLY\n" + src)
        hs.append(gen.custom_harness("C07", "c07", s, "codec" if name == "non_mixin" else "mixin"))
    return hs


def run(tier, seed):
    hs = harnesses(tier, seed)
    return runner.run_property(
        "C07", hs, tier, seed, 60 if tier == "quick" else 200,
        bounds={"fields_per_layout": "<= 3 (4 thorough)", "layouts": len(hs), "list_len": 1},
        assumptions=ASSUMPTIONS,
        functions_note=["generated __mashumaro_from_dict__ of every layout class (positional / keyword / kwargs assembly)"])
