import itertools
import random

from vf import gen, runner
from vf.schemas import Schema

ASSUMPTIONS = [
    "CrossHair 0.0.110 model of Python and z3 5.1.0",
    "solver variables: every field value (so 'value == default' and 'value is None' are decided by z3, not sampled), the "
    "omit_none / by_alias keyword ({absent, False, True}) and the dialect= keyword selector; list length <= 1",
    "PROJECT(o, plain) (vf/props/c08.py project) written from README: keyword > call dialect > Config.dialect > Config; "
    "nested classes use their own options, keyword flags reach a nested class only if it opted in to the same flag",
    "option vectors enumerated: {unset,F,T}^3 x sort_keys x lazy x flag subsets x Config.dialect x nested opt-in; quick tier = "
    "all single-option vectors + a seeded sample, thorough = larger sample (stated in bounds)",
]

HEAD = '''
class Color(Enum):
    RED = "red"
    GREEN = "green"

class D_ON(Dialect):
    omit_none = True
class D_OD(Dialect):
    omit_default = True
class D_AL(Dialect):
    serialize_by_alias = True
class D_OFF(Dialect):
    omit_none = False
    omit_default = False
    serialize_by_alias = False
DIALECTS = {"D_ON": D_ON, "D_OD": D_OD, "D_AL": D_AL, "D_OFF": D_OFF}
'''
FIELDS_NEST = '''    p: Optional[int] = None
    q: int = field(default=1, metadata={"alias": "Q"})
'''
FIELDS = {"X": '''    a: int = field(metadata={"alias": "A"})
    b: Optional[int] = None
    c: int = 5
    l: List[int] = field(default_factory=list)
    n: %s = field(default_factory=lambda: %s())
    z: Optional[int] = 9
''', "Y": '''    z: int = field(metadata={"alias": "Z"})
    t: Tuple[int, int] = (1, 2)
    e: Color = Color.RED
    s: int = field(default=0, metadata={"serialize": "omit"})
    b: Optional[%s] = None
    a: Optional[int] = field(default=3, metadata={"alias": "A"})
    # %s
'''}
FLAGMAP = {"omit_none": "TO_DICT_ADD_OMIT_NONE_FLAG", "by_alias": "TO_DICT_ADD_BY_ALIAS_FLAG", "dialect": "ADD_DIALECT_SUPPORT"}


def cfg_src(v, nested=False):
    lines = ["    class Config(BaseConfig):"]
    if not nested:
        lines.append("        aliases = {'z': 'Z', 'e': 'E'}")
        for k in ("omit_none", "omit_default", "serialize_by_alias"):
            if v[k] is not None:
                lines.append("        %s = %r" % (k, v[k]))
        if v["sort_keys"]:
            lines.append("        sort_keys = True")
        if v["lazy"]:
            lines.append("        lazy_compilation = True")
        if v["cfg_dialect"]:
            lines.append("        dialect = %s" % v["cfg_dialect"])
    flags = v["flags"] if not nested else (v["flags"] if v["nested_optin"] else ())
    if flags:
        lines.append("        code_generation_options = [%s]" % ", ".join(FLAGMAP[f] for f in flags))
    if len(lines) == 1:
        lines.append("        pass")
    return "\n".join(lines) + "\n"


def prelude(v, shape="X"):
    FIELDS_X = FIELDS[shape]
    src = [HEAD]
    src.append("@dataclass\nclass Nest(DataClassDictMixin):\n" + FIELDS_NEST + cfg_src(v, nested=True))
    src.append("@dataclass\nclass X(DataClassDictMixin):\n" + FIELDS_X % ("Nest", "Nest") + cfg_src(v))
    src.append("@dataclass\nclass PNest(DataClassDictMixin):\n" + FIELDS_NEST)
    src.append("@dataclass\nclass PX(DataClassDictMixin):\n" + FIELDS_X % ("PNest", "PNest"))
    nflags = {f: True for f in (v["flags"] if v["nested_optin"] else ())}
    xcfg = {k: v[k] for k in ("omit_none", "omit_default", "serialize_by_alias")}
    xcfg["sort_keys"] = v["sort_keys"]
    xcfg["lazy"] = v["lazy"]
    src.append("SPEC = {X: {'config': dict(%s, aliases={'z': 'Z', 'e': 'E'}, dialect=%s), 'flags': %r, 'call_dialects': [D_ON, D_AL, D_OD, D_OFF]},\n"
               "        Nest: {'config': {}, 'flags': %r, 'call_dialects': []}}\n" % (
                   ", ".join("%s=%r" % kv for kv in xcfg.items()), v["cfg_dialect"] or "None",
                   {f: True for f in v["flags"]}, nflags))
    src.append("PLAIN = {X: PX, Nest: PNest}\n")
    return "\n".join(src)


def vectors(tier, seed):
    base = dict(omit_none=None, omit_default=None, serialize_by_alias=None, sort_keys=False, lazy=False, flags=(),
                cfg_dialect=None, nested_optin=False)
    out = [dict(base)]
    for k in ("omit_none", "omit_default", "serialize_by_alias"):
        for val in (False, True):
            out.append(dict(base, **{k: val}))
    out.append(dict(base, sort_keys=True))
    out.append(dict(base, sort_keys=True, omit_default=True, serialize_by_alias=True))
    for fl in (("omit_none",), ("by_alias",), ("dialect",), ("omit_none", "by_alias", "dialect")):
        out.append(dict(base, flags=fl))
        out.append(dict(base, flags=fl, nested_optin=True))
    for d in ("D_ON", "D_OD", "D_AL", "D_OFF"):
        out.append(dict(base, cfg_dialect=d))
        out.append(dict(base, cfg_dialect=d, omit_none=True, omit_default=True, serialize_by_alias=True))
    out.append(dict(base, lazy=True, omit_none=True))
    rnd = random.Random(seed)
    allflags = [()] + [c for n in (1, 2, 3) for c in itertools.combinations(("omit_none", "by_alias", "dialect"), n)]
    for _ in range(24 if tier == "quick" else 300):
        out.append(dict(
            omit_none=rnd.choice((None, False, True)), omit_default=rnd.choice((None, False, True)),
            serialize_by_alias=rnd.choice((None, False, True)), sort_keys=rnd.random() < 0.3, lazy=rnd.random() < 0.25,
            flags=rnd.choice(allflags), cfg_dialect=rnd.choice((None, None, "D_ON", "D_OD", "D_AL", "D_OFF")),
            nested_optin=rnd.random() < 0.5))
    seen, uniq = set(), []
    for v in out:
        key = repr(sorted(v.items()))
        if key not in seen:
            seen.add(key)
            uniq.append(v)
    return uniq


def vname(v):
    t = {None: "u", False: "f", True: "t"}
    return "V_%s%s%s_%s%s_%s_%s_%s" % (
        t[v["omit_none"]], t[v["omit_default"]], t[v["serialize_by_alias"]], "s" if v["sort_keys"] else "-",
        "l" if v["lazy"] else "-", "".join(f[0] for f in v["flags"]) or "0", v["cfg_dialect"] or "nod",
        "n" if v["nested_optin"] else "-")


def harnesses(tier, seed):
    hs = []
    for v in vectors(tier, seed):
        for shape in ("X", "Y"):
            s = Schema(vname(v) + shape, "X", prelude(v, shape))
            hs.append(gen.custom_harness("C08", "c08", s, "mixin", "spec=SPEC, plain=PLAIN", "spec=SPEC, plain=PLAIN"))
    return hs


def run(tier, seed):
    hs = harnesses(tier, seed)
    return runner.run_property(
        "C08", hs, tier, seed, 90 if tier == "quick" else 240,
        bounds={"option_vectors": len(hs), "fields": 9, "list_len": 1, "nested_depth": 1},
        assumptions=ASSUMPTIONS,
        functions_note=["generated __mashumaro_to_dict__ of X and Nest for every option vector, dialect-specific packers "
                        "compiled on first use"])
