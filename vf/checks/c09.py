import itertools

from vf import gen, runner
from vf.schemas import Schema

ASSUMPTIONS = [
    "CrossHair 0.0.110 model of Python and z3 5.1.0",
    "candidate keys are concrete: field names, every alias string, Config.aliases values, the discriminator field, a stranger, "
    "and every string literal harvested from the generated source of the class (so a key such as 'None' gets tried); presence of "
    "each is a solver variable, values are distinct symbolic ints",
    "KEYMODEL = vf/oracle.py decode_dataclass (alias precedence metadata > Annotated Alias > Config.aliases; "
    "allow_deserialization_not_by_alias falls back to the name, alias wins; forbid_extra_keys reports exactly the unexpected "
    "keys; class-level discriminator field accepted)",
    "alias-source assignments enumerated: 2^3 for f1 x {allow, forbid} x {shadowing, discriminator}",
]


def class_src(meta, ann, conf, allow, forbid, shadow, disc, anytype=False, last_plain=False):
    """f1 has the chosen alias sources; f2 has no alias (its name may be shadowed by f1's alias); f3 defaulted with alias."""
    a_meta = "f2" if shadow else "mA"
    base_t = "Any" if anytype else "int"
    f1_type = "Annotated[%s, Alias('nA')]" % base_t if ann else base_t
    f1_field = " = field(metadata={'alias': %r})" % a_meta if meta else ""
    lines = []
    parent = "DataClassDictMixin"
    if disc:
        lines += ["@dataclass", "class KBase(DataClassDictMixin):", "    class Config(BaseConfig):",
                  "        discriminator = Discriminator(field='type', include_subtypes=True)",
                  "        allow_deserialization_not_by_alias = %r" % allow, "        forbid_extra_keys = %r" % forbid,
                  "        aliases = %r" % ({"f1": "f2" if (shadow and not meta) else "cA"} if conf else {}), ""]
        parent = "KBase"
    lines += ["@dataclass", "class K(%s):" % parent,
             "    f1: %s%s" % (f1_type, f1_field),
             "    f2: int",
             "    f3: int = field(default=30, metadata={'alias': 'a3'})" if not last_plain else "    f3: int = 30"]
    if disc:
        lines.append("    type = 'k'")
        return "\n".join(lines) + "\n"
    lines += [
             "    class Config(BaseConfig):",
             "        aliases = %r" % ({"f1": "f2" if (shadow and not meta) else "cA"} if conf else {}),
             "        allow_deserialization_not_by_alias = %r" % allow,
             "        forbid_extra_keys = %r" % forbid]
    return "\n".join(lines) + "\n"


def harnesses(tier, seed):
    hs = []
    combos = []
    for meta, ann, conf in itertools.product([False, True], repeat=3):
        for allow, forbid in itertools.product([False, True], repeat=2):
            combos.append((meta, ann, conf, allow, forbid, False, False))
    for meta, conf in ((True, False), (False, True)):
        for allow, forbid in itertools.product([False, True], repeat=2):
            combos.append((meta, False, conf, allow, forbid, True, False))
    for allow in (False, True):
        for forbid in (False, True):
            combos.append((True, False, False, allow, forbid, False, True))
            combos.append((False, False, True, allow, forbid, False, True))
    anycombos = []
    for meta, ann, conf in ((True, False, False), (False, True, False), (False, False, True), (True, True, True)):
        for allow in (False, True):
            anycombos.append((meta, ann, conf, allow, False, False, False))
    if tier == "quick":
        combos = combos[::2] + combos[-8:]
    seen = set()
    for c in combos:
        if c in seen:
            continue
        seen.add(c)
        name = "K_" + "".join("1" if x else "0" for x in c)
        s = Schema(name, "K", class_src(*c))
        kw = "extra=('type',)" if c[6] else ""
        hs.append(gen.custom_harness("C09", "c09", s, "mixin", kw, kw))
    for c in anycombos:
        name = "KA_" + "".join("1" if x else "0" for x in c)
        hs.append(gen.custom_harness("C09", "c09", Schema(name, "K", class_src(*c, anytype=True)), "mixin"))
    for meta, conf in ((True, False), (False, True)):
        for allow, forbid in itertools.product([False, True], repeat=2):
            c = (meta, False, conf, allow, forbid, False, False)
            name = "KL_" + "".join("1" if x else "0" for x in c)
            hs.append(gen.custom_harness("C09", "c09", Schema(name, "K", class_src(*c, last_plain=True)), "mixin"))
    # hand-written shapes: an init=False field whose name shows up as a key; a three-level hierarchy in which the middle class
    # re-declares a field with another alias
    for allow, forbid in itertools.product([False, True], repeat=2):
        cfg = ("    class Config(BaseConfig):\n        allow_deserialization_not_by_alias = %r\n        forbid_extra_keys = %r\n"
               % (allow, forbid))
        src = ("@dataclass\nclass K(DataClassDictMixin):\n    f1: int = field(metadata={'alias': 'mA'})\n"
               "    comp: int = field(init=False, default=7)\n    f3: int = 30\n" + cfg)
        hs.append(gen.custom_harness("C09", "c09", Schema("KI_%d%d" % (allow, forbid), "K", src), "mixin",
                                     "extra=('comp',)", "extra=('comp',)"))
        src = ("@dataclass\nclass KB(DataClassDictMixin):\n    f1: int = field(metadata={'alias': 'bA'})\n    f2: int = 2\n" + cfg +
               "\n@dataclass\nclass KM(KB):\n    f1: int = field(metadata={'alias': 'mA'})\n"
               "\n@dataclass\nclass K(KM):\n    f3: int = 30\n")
        hs.append(gen.custom_harness("C09", "c09", Schema("KH_%d%d" % (allow, forbid), "K", src), "mixin",
                                     "extra=('bA',)", "extra=('bA',)"))
    # classes without constructor parameters (no fields at all / only an init=False field): no key is expected;
    # alias cycles and chains: a's alias is b's name while b has an alias of its own
    cfgf = "    class Config(BaseConfig):\n        forbid_extra_keys = True\n"
    hs.append(gen.custom_harness("C09", "c09", Schema("KE_empty", "K", "@dataclass\nclass K(DataClassDictMixin):\n" + cfgf), "mixin",
                                 "extra=('k1',)", "extra=('k1',)"))
    hs.append(gen.custom_harness("C09", "c09", Schema("KE_noinit", "K", "@dataclass\nclass K(DataClassDictMixin):\n"
                                 "    comp: int = field(init=False, default=7)\n" + cfgf), "mixin", "extra=('comp',)", "extra=('comp',)"))
    for allow, forbid in itertools.product([False, True], repeat=2):
        cfg = ("    class Config(BaseConfig):\n        allow_deserialization_not_by_alias = %r\n        forbid_extra_keys = %r\n"
               % (allow, forbid))
        src = ("@dataclass\nclass K(DataClassDictMixin):\n    a: int = field(metadata={'alias': 'b'})\n"
               "    b: int = field(metadata={'alias': 'a'})\n    c: int = 3\n" + cfg)
        hs.append(gen.custom_harness("C09", "c09", Schema("KS_%d%d" % (allow, forbid), "K", src), "mixin"))
        src = ("@dataclass\nclass K(DataClassDictMixin):\n    first: int = field(metadata={'alias': 'second'})\n"
               "    second: int = field(metadata={'alias': 'third'})\n    third: int = 3\n" + cfg)
        hs.append(gen.custom_harness("C09", "c09", Schema("KC_%d%d" % (allow, forbid), "K", src), "mixin"))
    return hs


def run(tier, seed):
    hs = harnesses(tier, seed)
    return runner.run_property(
        "C09", hs, tier, seed, 90 if tier == "quick" else 240,
        bounds={"candidate_keys": "<= 9", "fields": 3, "assignments": len(hs)},
        assumptions=ASSUMPTIONS,
        functions_note=["generated __mashumaro_from_dict__ of class K for every alias assignment"])
