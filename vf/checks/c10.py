import itertools
import random

from vf import gen, runner
from vf.props import c10 as P
from vf.schemas import Schema

ASSUMPTIONS = [
    "CrossHair 0.0.110 model of Python and z3 5.1.0",
    "(a) unit level: 14 symbolic presence bits (field option, field strategy, 4 keyed levels x 3 type keys); the real "
    "get_overridden_(de)serialization_method + CodeBuilder.iter_serialization_strategies run on a real CodeBuilder whose "
    "strategy maps are duck-typed .get() objects; resolution returns at the first hit so the 2^14 assignments are covered by a "
    "few dozen paths",
    "(b) end to end through the public API with tagging strategies for concrete subsets of cells (all singles, sampled pairs, "
    "the full chain, pass_through at the winning level), symbolic List[int] value; mixin (incl. a mixin with a format dialect "
    "via builder params) and codec (all 8 subsets of default_dialect keys)",
    "precedence model: field option < field strategy < (alias key < exact type < origin) x (call dialect < Config.dialect < "
    "Config.serialization_strategy < format/default dialect)",
]


def harnesses(tier, seed):
    hs = []
    s = Schema("unit", "int", "")
    hs.append(gen.custom_harness("C10", "c10", s, "unit_ser"))
    hs.append(gen.custom_harness("C10", "c10", s, "unit_de"))
    cells = list(P.CELLS)
    subsets = [()] + [(c,) for c in cells]
    pairs = list(itertools.combinations(cells, 2))
    rnd = random.Random(seed)
    rnd.shuffle(pairs)
    subsets += pairs[:24 if tier == "quick" else len(pairs)]
    subsets.append(tuple(cells))
    subsets.append(tuple(c for c in cells if not c.startswith("field/")))
    for j, sub in enumerate(subsets):
        name = "E%03d" % j
        kw = "cells=%r" % (tuple(sub),)
        hs.append(gen.custom_harness("C10", "c10", Schema(name, "int", ""), "mixin", kw, kw))
        if sub and (j % 3 == 0 or tier != "quick"):
            want = P.expected_cell({c: c in sub for c in cells})
            kw2 = "cells=%r, pass_through=%r" % (tuple(sub), want)
            hs.append(gen.custom_harness("C10", "c10", Schema(name + "pt", "int", ""), "mixin", kw2, kw2))
    for j, sub in enumerate([("field/option",), ("field/strategy",), ("field/option", "config_strategy/exact"),
                             ("field/strategy", "config_dialect/alias"), tuple(cells)]):
        kw = "cells=%r" % (tuple(sub),)
        hs.append(gen.custom_harness("C10", "c10", Schema("I%d" % j, "int", ""), "mixin3", kw, kw))
    dd = ["default_dialect/%s" % k for k in P.KEYS]
    for n in range(0, 4):
        for sub in itertools.combinations(dd, n):
            kw = "cells=%r" % (tuple(sub),)
            hs.append(gen.custom_harness("C10", "c10", Schema("K" + "".join(x[-3] for x in sub) + "_", "int", ""), "codec", kw, kw))
    return hs


def run(tier, seed):
    hs = harnesses(tier, seed)
    return runner.run_property(
        "C10", hs, tier, seed, 90 if tier == "quick" else 240,
        bounds={"cells": 14, "e2e_subsets": len(hs) - 2, "list_len": 1},
        assumptions=ASSUMPTIONS,
        functions_note=["mashumaro.core.meta.types.pack.get_overridden_serialization_method",
                        "mashumaro.core.meta.types.unpack.get_overridden_deserialization_method",
                        "CodeBuilder.iter_serialization_strategies", "generated to_dict/from_dict/encode/decode of the tagged classes"])
