import itertools

from vf import gen, runner
from vf.schemas import COMMON_PRELUDE, Schema

PRELUDE = COMMON_PRELUDE + '''
CT = TypeVar("CT", int, str)

@dataclass
class GenC(Generic[CT], DataClassDictMixin):
    c: CT

NTI = NewType("NTI", int)
NTS = NewType("NTS", str)
type TAI = int

@dataclass
class P1:
    a: int

@dataclass
class P2:
    a: int
    b: str
'''
UNIONS = [
    ("is", "Union[int, str]"), ("si", "Union[str, int]"), ("scalars", "Union[int, float, bool, str, None]"),
    ("fi", "Union[float, int]"), ("bi", "Union[bool, int]"),
    ("i_n_date", "Union[int, None, datetime.date]"), ("date_i", "Union[datetime.date, int]"),
    ("s_date", "Union[str, datetime.date]"), ("date_s", "Union[datetime.date, str]"),
    ("list_dict", "Union[List[int], Dict[str, int]]"), ("dict_list", "Union[Dict[str, int], List[int]]"),
    ("p1_p2", "Union[P1, P2]"), ("p2_p1", "Union[P2, P1]"), ("mix_plain", "Union[Mix, Plain]"),
    ("nested", "Union[int, Union[datetime.date, List[int]]]"), ("opt_uni", "Optional[Union[int, str]]"),
    ("color_i", "Union[Color, int]"), ("i_color", "Union[int, Color]"), ("lit_i", "Union[Literal['a', 'b'], int]"),
    ("n_first", "Union[None, int, datetime.date]"), ("tuple_of", "Tuple[Union[int, datetime.date], ...]"),
    ("dict_of", "Dict[str, Union[int, None, str]]"), ("genc_int", "GenC[int]"), ("genc", "GenC"),
    ("tvar_list", "List[CT]"),
    ("uuid_date_n", "Union[UUID, datetime.date, None]"), ("td_list", "Union[TDict, List[str]]"),
    ("nt_dict", "Union[NT, Dict[str, int]]"), ("fset_i", "Union[FrozenSet[int], int]"),
    ("uuid_i", "Union[UUID, int]"), ("dec_s", "Union[Decimal, str]"), ("seq_s", "Union[Sequence[str], str]"),
    ("path_i", "Union[PurePosixPath, int]"), ("tvar_s", "Union[Tuple[str, ...], str]"), ("ip_f", "Union[IPv4Address, float]"),
    ("tfix_opt", "Tuple[int, Optional[int]]"), ("tvar_opt", "Tuple[Optional[int], ...]"), ("lit_01", "Literal[0, 1]"),
    ("u_lit_s", "Union[Literal[1, 2], str]"),
    # scalar members behind NewType / Annotated / a PEP 695 alias: the type test in the generated union decoder must name the
    # underlying class
    ("newtype_s", "Union[NTI, str]"), ("s_newtype", "Union[str, NTI]"), ("newtype_n_date", "Union[NTI, None, datetime.date]"),
    ("ann_s", "Union[Annotated[int, 'm'], str]"), ("alias_s", "Union[TAI, str]"), ("nts_i", "Union[NTS, int, None]"),
]
LITERALS = [
    ("lit_mixed", "Literal['a', 2, None]"), ("lit_bool", "Literal[True, 'x']"), ("lit_bytes", "Literal[b'x', 'y']"),
    ("lit_enum", "Literal[Color.RED, Num.TWO]"), ("lit_nested", "Literal[Literal['a'], 3]"),
    ("lit_int", "Literal[0, 1, -1]"), ("opt_lit", "Optional[Literal['a']]"),
]
PERM_MEMBERS = ["int", "datetime.date", "Mix", "List[int]"]

ASSUMPTIONS = [
    "CrossHair 0.0.110 model of Python and z3 5.1.0",
    "decode input: arbitrary JSON-like value (see C03: tag/length/presence/selectors are solver variables, scalars from "
    "boundary pools incl. valid encodings of every leaf type of the union); encode input: member selector + conforming "
    "member value (scalar union members pooled because CrossHair does not model .__class__ of symbolic scalars)",
    "REF_UNION_DECODE reading of the statement: members are visited in declaration order; a basic scalar member (int, float, "
    "bool, str, None) matches only an input of exactly its type and returns it unchanged (no cross-coercion); any other member "
    "is tried and the first that accepts wins; if none matched, the coercing constructors of the scalar members are tried in "
    "declaration order as a last resort; a null member matches only null; otherwise raise. Literal: first listed value equal "
    "(==) to the input.",
    "union grammar enumerated (vf/checks/c11.py), incl. all orders of 3 members out of {int, date, Mix, List[int]}",
]


def schemas(tier):
    out = [Schema("U_" + n, t, PRELUDE) for n, t in UNIONS + LITERALS]
    perms = list(itertools.permutations(PERM_MEMBERS, 3))
    if tier == "quick":
        perms = perms[::4]
    for j, p in enumerate(perms):
        out.append(Schema("UP_%d" % j, "Union[%s]" % ", ".join(p), PRELUDE))
    return out


def harnesses(tier, seed):
    hs, skipped = [], []
    for s in schemas(tier):
        key = {"U_is", "U_scalars", "U_i_n_date", "U_date_s", "U_p1_p2", "U_lit_mixed", "U_genc_int", "U_dict_of"}
        variants = ["codec"] if tier == "quick" and s.name not in key else ["codec", "field"]
        for variant in variants:
            try:
                hs.append(gen.custom_harness("C11", "c03", s, variant, "prefix='C11'", "prefix='C11'", name_suffix="_dec"))
            except Exception as e:
                skipped.append((s.name, variant + ":dec", repr(e)[:200]))
            if s.name in ("U_genc",):
                continue
            try:
                hs.append(gen.value_harness("C11", "c02", s, variant, "Bounds(maxlen=2)", setup_kwargs="has_any=True, prefix='C11'",
                                            name_suffix="_enc"))
            except Exception as e:
                skipped.append((s.name, variant + ":enc", repr(e)[:200]))
    # Optional / union-with-None fields that have a NON-None default: explicit null vs default
    for n, t, kw in DEFAULTED:
        try:
            hs.append(gen.custom_harness("C11", "c03", Schema("D_" + n, t, PRELUDE), "field_default", "prefix='C11'",
                                         "prefix='C11', " + kw, name_suffix="_dec"))
        except Exception as e:
            skipped.append((n, "field_default:dec", repr(e)[:200]))
    return hs, skipped


DEFAULTED = [
    ("opt_int", "Optional[int]", "default=42"), ("opt_date", "Optional[datetime.date]", "default=datetime.date(2000, 1, 1)"),
    ("opt_list", "Optional[List[int]]", "default_factory=lambda: [1, 2, 3]"), ("i_n_date", "Union[int, None, datetime.date]", "default=5"),
    ("opt_mix", "Optional[Plain]", "default_factory=lambda: Plain(1)"), ("opt_lit", "Optional[Literal['a']]", "default='a'"),
]


def run(tier, seed):
    hs, skipped = harnesses(tier, seed)
    extra = [{"name": "build:%s:%s" % (n, v), "harness": "generator", "kind": "main", "final": "harness_error", "msg": e}
             for n, v, e in skipped]
    return runner.run_property(
        "C11", hs, tier, seed, 60 if tier == "quick" else 200,
        bounds={"arb_depth": 1, "list_len": 2, "dict_keys": 2, "union_members": "<=5", "permutations": "3 of 4"},
        assumptions=ASSUMPTIONS,
        functions_note=["generated __unpack_union_*/__pack_union_*/__unpack_literal_*/__pack_literal_*/__unpack_type_var_* "
                        "functions", "codec decode/encode wrappers", "wrapper dataclass from_dict/to_dict"],
        extra_results=extra)
