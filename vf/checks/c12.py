from vf import gen, runner
from vf.schemas import Schema

ASSUMPTIONS = [
    "CrossHair 0.0.110 model of Python and z3 5.1.0",
    "hierarchy Base <- A, B; A <- C with unique tags 'a', 0 and '' (falsy tags are tags too); a fresh hierarchy is built per path untraced from realised selectors "
    "(classes cannot be symbolic); solver variables: the event history (<= 3 events quick, 4 thorough, from {define next class, "
    "decode tag in {a, b, c, unknown, absent}, create decoder}), the cached-registry subset, the tag, the payload of the last decode "
    "(traced)",
    "inductive step (Config wiring): pre-state = any subset of the correct registry entries cached (representation invariant: every "
    "cached entry maps a tag to the defined class carrying it); one lookup, optionally one more definition and two lookups; the "
    "invariant is re-checked afterwards, so histories of any length are covered for this hierarchy",
    "wiring styles enumerated: Config discriminator, Annotated field (holder created before any subclass), codec (decoder created "
    "at a chosen point of the history), include_supertypes, variant_tagger_fn, non-mixin dataclasses through the codec",
    "nested roots: QBase(type) <- QA, QBase <- QPoly (its own Config discriminator on 'kind') <- QTri; outer tag in {poly, a, zz, "
    "absent} x inner tag in {tri, zz, absent} x (QTri defined before / after the first call): the inner root's "
    "MissingDiscriminatorError / SuitableVariantNotFoundError must surface unchanged",
    "'hard' families: tags {a, an unhashable list, '', absent}; class A (and C through inheritance) has a __post_init__ that raises "
    "KeyError for the payload x == 13: after every decode event the same tag is decoded again with that payload, and the KeyError "
    "must surface as it is (the tag is known, the class was selected)",
    "two bases: ONE Discriminator object annotates two unrelated hierarchies (Shape <- Circle 'v1', Square 'sq'; Animal <- Cat 'v1', "
    "Dog 'dog') inside one tuple field / two fields / a codec; tags at both positions in {v1, sq, dog, zz} and an earlier call are "
    "solver variables: each position resolves among the subclasses of its own base only",
    "no-field mode: hierarchy NBase <- NA <- NC, NBase <- NB of mixin or plain dataclasses; the point at which the decoder / holder "
    "class is created (after 0..3 subclasses exist) and the point of a first call (after 0..3 subclasses, or never) are solver "
    "variables; which required keys are present and whether NA's constructor "
    "rejects the input (with an exception type of its own) are solver variables; checked: some accepting subclass is returned, the "
    "supertype only when no subclass accepts, SuitableVariantNotFoundError otherwise (order among subclasses is not stated)",
]
FAMILIES = [
    ("config", "style='config'"), ("annotated", "style='annotated'"), ("codec", "style='codec'"),
    ("annotated_super", "style='annotated', supertypes=True"), ("codec_super", "style='codec', supertypes=True"),
    ("config_tagger", "style='config', tagger=True"), ("codec_tagger", "style='codec', tagger=True"),
    ("codec_plain", "style='codec', mixin=False"),
    ("config_json", "style='config', fmt='json'"), ("annotated_json", "style='annotated', fmt='json'"),
    ("annotated_msgpack", "style='annotated', fmt='msgpack'"), ("annotated_plain", "style='annotated', mixin=False"),
    ("config_json_predef", "style='config', fmt='json', predef=True"),
    ("annotated_json_predef", "style='annotated', fmt='json', predef=True"),
    ("annotated_plain_predef", "style='annotated', mixin=False, predef=True"),
    ("codec_predef", "style='codec', predef=True"), ("config_predef", "style='config', predef=True"),
    # calls that pass a dialect (every other call / every call) to classes with ADD_DIALECT_SUPPORT, plain variants included
    ("annotated_plain_dialect", "style='annotated', mixin=False, dialect='alt'"), ("config_dialect", "style='config', dialect='alt'"),
    # other Annotated metadata items before the Discriminator
    ("annotated_extra", "style='annotated', ann_extra=True"), ("codec_extra", "style='codec', ann_extra=True"),
    # a second discriminated field with ANOTHER tagger function, declared first in the same holder
    ("annotated_two_taggers", "style='annotated', tagger=True, two=True"),
    # Config discriminator on a plain root, holder typed with the bare root; calls alternating from_dict / from_json
    # an unhashable tag value; a variant whose own __post_init__ raises KeyError for one payload (must surface unchanged)
    ("config_hard", "style='config', hard=True"), ("annotated_hard", "style='annotated', hard=True"),
    ("codec_hard", "style='codec', hard=True"), ("annotated_plain_hard", "style='annotated', mixin=False, hard=True"),
    ("nested_plain_cross", "style='nested', mixin=False, cross=True"), ("annotated_plain_cross", "style='annotated', mixin=False, cross=True"),
]
THOROUGH_ONLY = [
    ("annotated_dialect", "style='annotated', dialect='always'"), ("nested_plain", "style='nested', mixin=False"),
    ("codec_dialect", "style='codec', dialect='always'"), ("nested_json", "style='nested', fmt='json'"),
]


def harnesses(tier, seed):
    hs = []
    k = 3 if tier == "quick" else 4
    for name, kw in FAMILIES + (THOROUGH_ONLY if tier != "quick" else []):
        kws = "k=%d, %s" % (k, kw)
        hs.append(gen.custom_harness("C12", "c12", Schema("hist_" + name, "int", ""), "hist",
                                     "k=%d%s" % (k, ", hard=True" if "hard=True" in kw else ""), kws))
    for name, kw in (("config", "style='config'"), ("config_tagger", "style='config', tagger=True")):
        hs.append(gen.custom_harness("C12", "c12", Schema("step_" + name, "int", ""), "step", "", kw))
    for name, kw in (("config", "style='config'"), ("annotated", "style='annotated'"), ("codec", "style='codec'"),
                     ("annotated_super", "style='annotated', supertypes=True"), ("codec_super", "style='codec', supertypes=True"),
                     ("annotated_plain", "style='annotated', mixin=False"), ("codec_plain", "style='codec', mixin=False"),
                     ("annotated_plain_super", "style='annotated', mixin=False, supertypes=True"),
                     ("codec_plain_super", "style='codec', mixin=False, supertypes=True")):
        hs.append(gen.custom_harness("C12", "c12", Schema("nofield_" + name, "int", ""), "nofield", "", kw))
    for name, kw in (("config", "style='config'"), ("annotated", "style='annotated'"), ("codec", "style='codec'")):
        hs.append(gen.custom_harness("C12", "c12", Schema("nested_" + name, "int", ""), "nested", "", kw))
    for st in ("tuple", "fields", "codec"):
        hs.append(gen.custom_harness("C12", "c12", Schema("twobase_" + st, "int", ""), "twobase", "", "style=%r" % st))
    return hs


def run(tier, seed):
    hs = harnesses(tier, seed)
    return runner.run_property(
        "C12", hs, tier, seed, 240 if tier == "quick" else 900,
        bounds={"history_events": 3 if tier == "quick" else 4, "classes": 4, "tags": 5, "families": len(FAMILIES) + (len(THOROUGH_ONLY) if tier != "quick" else 0)},
        assumptions=ASSUMPTIONS,
        functions_note=["generated subtype/discriminated-union unpackers (variant map lookup, refill on miss, retry)",
                        "generated from_dict of Base/A/B/C and of the holder; codec decode"])
