from vf import gen, runner
from vf.props import c13 as P
from vf.schemas import Schema

ASSUMPTIONS = [
    "CrossHair 0.0.110 model of Python and z3 5.1.0",
    "(a) isolation: fresh family Parent <- C <- Sub with ADD_DIALECT_SUPPORT per path; solver variables: k earlier uses (class x "
    "dialect in {None, D1, D2, D3} x direction, or nothing; k = 1 quick, 2 thorough) executed untraced on concrete data, the final "
    "call's dialect and class, and its instance data (traced); oracle: a freshly built class whose Config.dialect is that dialect, "
    "and an untouched twin for the dialect-less behaviour",
    "(b) Dialect.merge: option vector of both operands ({MISSING, F, T}^4, no_copy in {MISSING, (), (list, dict)}, strategy presence per "
    "key) realised from solver variables; the merge itself runs untraced (it creates a class)",
    "(c) uniformity: Encoder_F(UT, default_dialect=D) vs BasicEncoder(UT, default_dialect=D) for symbolic values, transports replaced by "
    "identity (public post_encoder_func/pre_decoder_func parameters; for orjson and toml, which have none, a shim object bound in "
    "mashumaro.codecs.<fmt> while the codec is constructed); documents compared modulo the format's declared native types "
    "(date/UUID/bytes rendered as in the basic form) and TOML's omission of nulls; 'unishared' harnesses construct the codecs of "
    "all other formats with the same user dialect first, in the same process",
]
FORMATS = ["json", "yaml", "orjson", "msgpack", "toml"]


def harnesses(tier, seed):
    hs = []
    k = 1 if tier == "quick" else 2
    for v in ("iso_to", "iso_from", "iso_tofmt", "iso_fromfmt"):
        kw = "k=%d, small=%r" % (k, tier == "quick")
        hs.append(gen.custom_harness("C13", "c13", Schema(v, "int", ""), v, kw, kw))
    hs.append(gen.custom_harness("C13", "c13", Schema("merge", "int", ""), "merge"))
    hs.append(gen.custom_harness("C13", "c13", Schema("merge_s", "int", ""), "merge_s"))
    for fmt in FORMATS:
        for dname in P.UNI_DIALECTS:
            kw = "fmt=%r, dname=%r" % (fmt, dname)
            hs.append(gen.custom_harness("C13", "c13", Schema("uni_%s_%s" % (fmt, dname), "int", ""), "uni", "", kw))
    for fmt in ("orjson", "msgpack", "toml"):
        for dname in (("omit_default", "by_alias", "strategy") if tier == "quick" else [d for d in P.UNI_DIALECTS if d != "none"]):
            kw = "fmt=%r, dname=%r, shared=True" % (fmt, dname)
            hs.append(gen.custom_harness("C13", "c13", Schema("unishared_%s_%s" % (fmt, dname), "int", ""), "uni", "", kw))
    return hs


def run(tier, seed):
    hs = harnesses(tier, seed)
    return runner.run_property(
        "C13", hs, tier, seed, 400 if tier == "quick" else 1200,
        bounds={"earlier_uses": 1 if tier == "quick" else 2, "dialect_pool": 4, "formats": len(FORMATS),
                "uniformity_dialects": len(P.UNI_DIALECTS)},
        assumptions=ASSUMPTIONS,
        functions_note=["generated to_dict/from_dict with dialect caches (per class, per format)", "Dialect.merge",
                        "codec encode/decode of every format codec with a default_dialect"])
