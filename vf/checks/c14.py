from vf import gen, runner
from vf.schemas import Schema

ASSUMPTIONS = [
    "CrossHair 0.0.110 model of Python and z3 5.1.0",
    "family per path: Inner, Outer(Inner, List[Inner], Optional[int]), Sub(Outer), Gen[int]/Gen[date] inside Holder, self-"
    "referencing Node, all with ADD_DIALECT_SUPPORT, Mixed(Plain, Optional[NoSup]) whose nested classes have NO dialect support; every class logs its four hooks and the "
    "hook trace is part of each outcome, on the orjson (and msgpack, thorough) mixin with identity transports; modes: "
    "lazy_compilation, postponed (forward references unresolvable at class creation), eager (control)",
    "history: k operations (quick: k = 2 over 20 operations; thorough: k = 2 over all 48 and k = 3 over 12) chosen by the solver from {to_dict, from_dict, to_<format>, from_<format>} x "
    "{no dialect, D1} x {Outer, Inner, Sub, Node, Holder, Mixed}; operations 1..k-1 and a dry run of the k-th run untraced on concrete "
    "data on the family and on a fresh eager twin and must have identical outcomes (value or exception type); the k-th runs traced "
    "on symbolic data on both",
    "OUTSIDE the claim: thread schedules (CrossHair executes one thread; nothing here encodes bytecode-level interleavings of "
    "concurrent first calls) and md5 collisions between generic specialisation keys",
]


def harnesses(tier, seed):
    hs = []
    combos = [("lazy", "orjson"), ("postponed", "orjson"), ("lazy", "msgpack")]
    if tier != "quick":
        combos += [("eager", "orjson"), ("postponed", "msgpack")]
    # quick: histories of 2 over 20 operations; thorough: histories of 2 over all 48 operations and of 3 over 12
    plans = [(2, True)] if tier == "quick" else [(2, False), (3, "tiny")]
    for mode, fmt in combos:
        for k, small in plans:
            kw = "k=%d, mode=%r, fmt=%r, small=%r" % (k, mode, fmt, small)
            hs.append(gen.custom_harness("C14", "c14", Schema("%s_%s_k%d" % (mode, fmt, k), "int", ""), "hist",
                                         "k=%d, small=%r" % (k, small), kw))
    return hs


def run(tier, seed):
    hs = harnesses(tier, seed)
    return runner.run_property(
        "C14", hs, tier, seed, 600 if tier == "quick" else 3000,
        bounds={"history_ops": "2" if tier == "quick" else "2 (48 ops) and 3 (12 ops)", "op_alphabet": 20 if tier == "quick" else 48, "harnesses": len(hs)},
        assumptions=ASSUMPTIONS,
        functions_note=["lazy stubs and the methods they compile on first call", "postponed-evaluation stubs",
                        "dialect-specific packers/unpackers compiled on first use", "generic specialisation methods"])
