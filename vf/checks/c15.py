from vf import gen, runner, schemas
from vf.schemas import COMMON_PRELUDE, Schema

ASSUMPTIONS = [
    "CrossHair 0.0.110 model of Python and z3 5.1.0",
    "entry points compared for all symbolic values: mixin method, Encoder/Decoder object, the type nested in List / Dict / Tuple / "
    "Optional codecs and as a dataclass field; the one-shot encode()/decode() functions build a codec per call (generator), so "
    "they are compared on concrete representatives in an untraced dry run at harness import",
    "interference: a solver-chosen operation (new codecs, composite codecs, a subclass, an enclosing dataclass, a one-shot call) "
    "runs between two evaluations; results must not change",
    "one-shot decode()/encode(): a solver-chosen sequence of 3 calls over 8 shapes (incl. unions that compare equal but list their "
    "members in a different order) runs untraced on concrete data; every call is compared with a codec object built for that shape",
    "types enumerated: leaf grammar + dataclass variants with dialect/config (vf/checks/c15.py)",
]
PRELUDE = COMMON_PRELUDE + '''
@dataclass
class CfgD(DataClassDictMixin):
    a: int = field(metadata={"alias": "A"})
    d: Optional[datetime.date] = None
    l: List[int] = field(default_factory=list)
    class Config(BaseConfig):
        serialize_by_alias = True
        omit_none = True

@dataclass
class PlainCfg:
    a: int = 1
    t: Tuple[int, ...] = ()
    m: Optional[Mix] = None
    class Config(BaseConfig):
        omit_default = True
'''
TYPES = ["Mix", "Plain", "Inh", "Gen[int]", "CfgD", "PlainCfg", "NT", "TDict", "datetime.date", "Optional[int]",
         "Union[int, str]", "List[Mix]", "Color", "Dict[str, Plain]", "bytes", "Tuple[int, str]", "Literal['a', 2]"]


def harnesses(tier, seed):
    hs = []
    for j, t in enumerate(TYPES):
        s = Schema("T%02d" % j, t, PRELUDE)
        hs.append(gen.custom_harness("C15", "c15", s, "all"))
    hs.append(gen.custom_harness("C15", "c15", Schema("oneshot", "int", ""), "oneshot"))
    return hs


def run(tier, seed):
    hs = harnesses(tier, seed)
    return runner.run_property(
        "C15", hs, tier, seed, 90 if tier == "quick" else 240,
        bounds={"types": len(TYPES), "maxlen": 1, "interference_ops": 5},
        assumptions=ASSUMPTIONS,
        functions_note=["generated to_dict/from_dict of the mixin classes", "codec encode/decode for T, List[T], Dict[str,T], "
                        "Tuple[T,int], Optional[T]", "wrapper dataclass field path"])
