"""C16 -- schema-supplied strings are data, never code.
Engine: direct z3 string encoding (ZS) of Python's short-string-literal lexing applied to the splice templates that are
re-extracted from the generated source on every run; every solver model is replayed on the real builder."""
import hashlib
import json
import os
import subprocess
import sys
import time

import z3

from vf import runner

ROOT = runner.ROOT
ALPHABET = {  # one representative per character class
    "squote": "'", "dquote": '"', "backslash": "\\", "lf": "\n", "cr": "\r", "nul": "\x00", "lbrace": "{", "rbrace": "}",
    "percent": "%", "hash": "#", "space": " ", "letter_n": "n", "letter_x": "x", "letter_a": "a", "digit": "0",
    "nonascii": "\u00e9", "linesep": "\u2028", "astral": "\U0001F600", "compat_micro": "\u00b5", "compat_sup2": "\u00b2",
    "tab": "\t",
}
POSITIONS = ["metadata_alias", "annotated_alias", "config_alias", "typeddict_key", "discriminator_field",
             "forbid_extra_keys", "discriminator_forbid", "literal_str", "literal_pair", "str_default_omit", "literal_bytes"]
ASSUMPTIONS = [
    "ZS = z3 5.1.0 string theory; the quantifier is over strings s with |s| <= N (N = 4 quick, 6 thorough) over an alphabet with "
    "one representative per character class: ' \" \\ LF CR NUL { } % # space n x a 0 e-acute U+2028 and an astral character",
    "MODEL (not CPython's C tokenizer): lexing of a short string literal -- states normal / after-backslash / inside \\x; the "
    "literal must be one token (no unescaped delimiter, no raw newline, no dangling backslash) and its value must equal s; "
    "escapes outside the modelled set count as unsafe, so the model is stricter than CPython; a model that does not reproduce on "
    "the real builder is discarded and blocked, never reported",
    "splice templates are re-extracted on every run by building real classes with probe strings and searching the recorded "
    "generated source: 'raw' (probe appears between single quotes, character for character), 'repr' (appears as repr(probe)) or "
    "'by-reference' (does not appear: passed through globals); assumption: emission is a character homomorphism between fixed "
    "delimiters (plus repr's quote choice)",
    "the homomorphism assumption and everything the lexing model does not know (e.g. str.format on the template) is validated by "
    "concrete probes: for every character class c the class is built with 'a'+c+'b' at every position and the real behaviour "
    "(builds, reads and writes exactly that key/value, sentinel not fired) is compared with the model's verdict",
    "OUTSIDE: strings longer than N; NamedTuple/dataclass field names (must be identifiers, so they cannot carry arbitrary text)",
]


def py(code, timeout=120):
    env = dict(os.environ, PYTHONPATH=runner.PYPATH)
    p = subprocess.run([runner.PY, "-c", code], capture_output=True, text=True, timeout=timeout, env=env)
    return p.returncode, p.stdout, p.stderr


PROBE_LIB = r'''
import sys, json, warnings
warnings.simplefilter("ignore")
sys.path.insert(0, __VF_ROOT__)
from vf.hprelude import *
from vf import hlib
FIRED = []
import builtins
builtins.vf_sentinel = lambda: FIRED.append(1)

def build(position, s):
    """returns (cls_or_codec, kind) ; raises whatever the real builder raises"""
    if position == "metadata_alias":
        @dataclass
        class K(DataClassDictMixin):
            x: int = field(metadata={"alias": s})
            y: Optional[int] = None
            class Config(BaseConfig):
                serialize_by_alias = True
        return K
    if position == "annotated_alias":
        @dataclass
        class K(DataClassDictMixin):
            x: Annotated[int, Alias(s)]
            y: Optional[int] = None
            class Config(BaseConfig):
                serialize_by_alias = True
                code_generation_options = [TO_DICT_ADD_BY_ALIAS_FLAG, TO_DICT_ADD_OMIT_NONE_FLAG]
        return K
    if position == "config_alias":
        @dataclass
        class K(DataClassDictMixin):
            x: int
            y: Optional[int] = None
            class Config(BaseConfig):
                aliases = {"x": s}
                serialize_by_alias = True
                allow_deserialization_not_by_alias = True
                omit_default = True
        return K
    if position == "forbid_extra_keys":
        @dataclass
        class K(DataClassDictMixin):
            x: int = field(metadata={"alias": s})
            y: int = 0
            class Config(BaseConfig):
                forbid_extra_keys = True
                serialize_by_alias = True
        return K
    if position == "typeddict_key":
        TD = TypedDict("TD", {s: int, "other": NotRequired[int]})
        @dataclass
        class K(DataClassDictMixin):
            t: TD
        return K
    if position == "discriminator_field":
        @dataclass
        class B(DataClassDictMixin):
            v: int = 0
            class Config(BaseConfig):
                discriminator = Discriminator(field=s, include_subtypes=True)
        A = dataclasses.make_dataclass("A", [("w", int, field(default=1))], bases=(B,), namespace={s: "tag-a"})
        B._A = A
        return B
    if position == "discriminator_forbid":
        @dataclass
        class B(DataClassDictMixin):
            v: int = 0
            class Config(BaseConfig):
                discriminator = Discriminator(field=s, include_subtypes=True)
                forbid_extra_keys = True
        A = dataclasses.make_dataclass("A", [("w", int, field(default=1))], bases=(B,), namespace={s: "tag-a"})
        B._A = A
        return B
    if position == "literal_pair":
        @dataclass
        class K(DataClassDictMixin):
            p: Tuple[Literal[s], Literal[s + "'"], Literal[s + '"']]
        return K
    if position == "literal_str":
        @dataclass
        class K(DataClassDictMixin):
            l: Literal[s, "zz"]
        return K
    if position == "literal_bytes":
        @dataclass
        class K(DataClassDictMixin):
            l: Literal[s.encode("utf-8", "surrogatepass"), b"zz"]
        return K
    if position == "str_default_omit":
        @dataclass
        class K(DataClassDictMixin):
            x: int
            d: str = s
            class Config(BaseConfig):
                omit_default = True
        return K
    raise KeyError(position)

def behaves(position, s):
    """None if the real code treats s as data at this position, else a short description"""
    del FIRED[:]
    try:
        K = build(position, s)
    except BaseException as e:
        return "build-raised:%s" % type(e).__name__
    try:
        if position in ("metadata_alias", "annotated_alias", "config_alias", "forbid_extra_keys"):
            o = K.from_dict({s: 5})
            if o.x != 5:
                return "read-wrong-key"
            d = o.to_dict()
            if s not in d or d[s] != 5:
                return "wrote-wrong-key:%r" % (list(d),)
            if position == "forbid_extra_keys":
                try:
                    K.from_dict({s: 5, s + "?": 1})
                    return "extra-key-accepted"
                except ExtraKeysError as e:
                    if set(e.extra_keys) != {s + "?"}:
                        return "extra-keys-wrong:%r" % (e.extra_keys,)
            if position != "forbid_extra_keys":
                try:
                    K.from_dict({s + "?": 5})
                    if position != "config_alias":
                        return "missing-key-accepted"
                except MissingField as e:
                    pass
        elif position == "typeddict_key":
            o = K.from_dict({"t": {s: 7}})
            if o.t != {s: 7}:
                return "typeddict-read-wrong:%r" % (o.t,)
            if o.to_dict() != {"t": {s: 7}}:
                return "typeddict-wrote-wrong"
        elif position == "literal_pair":
            vals = (s, s + "'", s + '"')
            o = K(p=vals)
            d = o.to_dict()
            if d != {"p": list(vals)}:
                return "literal-pair-wrote-wrong:%r" % (d,)
            if K.from_dict(d).p != vals:
                return "literal-pair-read-wrong"
            try:
                K.from_dict({"p": [vals[1], vals[0], vals[2]]})
                return "literal-pair-accepted-swapped"
            except InvalidFieldValue:
                pass
        elif position == "discriminator_forbid":
            o = K.from_dict({s: "tag-a", "v": 1, "w": 2})
            if type(o) is not K._A or o.w != 2:
                return "variant-wrong:%r" % (o,)
            try:
                K._A.from_dict({s: "tag-a", "v": 1, s + "?": 3})
                return "extra-key-accepted"
            except ExtraKeysError as e:
                if set(e.extra_keys) != {s + "?"}:
                    return "extra-keys-wrong:%r" % (e.extra_keys,)
        elif position == "discriminator_field":
            o = K.from_dict({s: "tag-a", "v": 1, "w": 2})
            if type(o) is not K._A or o.w != 2:
                return "variant-wrong:%r" % (o,)
            try:
                K.from_dict({"v": 1})
                return "missing-discriminator-accepted"
            except MissingDiscriminatorError:
                pass
        elif position == "literal_str":
            o = K.from_dict({"l": s})
            if o.l != s or o.to_dict() != {"l": s}:
                return "literal-wrong"
            try:
                K.from_dict({"l": s + "?"})
                return "literal-accepted-other"
            except InvalidFieldValue:
                pass
        elif position == "literal_bytes":
            b = s.encode("utf-8", "surrogatepass")
            o = K(l=b)
            if K.from_dict(o.to_dict()).l != b:
                return "literal-bytes-wrong"
        elif position == "str_default_omit":
            if K(1).to_dict() != {"x": 1}:
                return "default-not-omitted"
            if K(1, s + "?").to_dict() != {"x": 1, "d": s + "?"}:
                return "non-default-omitted"
            if K.from_dict({"x": 1}).d != s:
                return "default-wrong"
    except BaseException as e:
        if FIRED:
            return "sentinel-fired"
        return "use-raised:%s" % type(e).__name__
    if FIRED:
        return "sentinel-fired"
    return None
'''


def real_behaviour(pairs):
    """[(position, s)] -> [None | description] evaluated on the real builder in a fresh interpreter"""
    code = PROBE_LIB.replace('__VF_ROOT__', repr(runner.ROOT)) + "\nimport json\npairs = json.loads(%r)\nprint('VFOUT ' + json.dumps([behaves(p, s) for p, s in pairs]))\n" % json.dumps(pairs)
    rc, out, err = py(code, timeout=600)
    for ln in out.splitlines():
        if ln.startswith("VFOUT "):
            return json.loads(ln[6:])
    raise RuntimeError("probe run failed: %s %s" % (out[-300:], err[-800:]))


def extract_templates():
    """classify every position as raw / repr / by-reference from the generated source of the current tree"""
    code = PROBE_LIB.replace('__VF_ROOT__', repr(runner.ROOT)) + r'''
out = {}
for pos in %r:
    res = {}
    for name, probe in (("plain", "vfPROBEq"), ("bs", "vfPR\\OBE")):
        del hlib.SOURCES[:]
        try:
            build(pos, probe)
            K = None
        except BaseException as e:
            res[name] = "build-raised:" + type(e).__name__
            continue
        src = "\n".join(hlib.SOURCES)
        if name == "plain":
            res["occurrences"] = src.count(probe)
            res["single_quoted"] = src.count("'" + probe + "'")
            res["double_quoted"] = src.count('"' + probe + '"')
        else:
            res["raw_bs"] = src.count("vfPR\\OBE")
            res["escaped_bs"] = src.count("vfPR\\\\OBE")
    out[pos] = res
print("VFOUT " + json.dumps(out))
''' % (POSITIONS,)
    rc, out, err = py(code, timeout=300)
    for ln in out.splitlines():
        if ln.startswith("VFOUT "):
            raw = json.loads(ln[6:])
            break
    else:
        raise RuntimeError("template extraction failed: %s" % err[-800:])
    tmpl = {}
    for pos, r in raw.items():
        if r.get("occurrences", 0) == 0:
            kind = "by-reference"
        elif r.get("escaped_bs", 0) > 0 and r.get("raw_bs", 0) == 0:
            kind = "repr"
        elif r.get("raw_bs", 0) > 0 and r.get("escaped_bs", 0) == 0 and r.get("single_quoted") == r.get("occurrences"):
            kind = "raw-single-quoted"
        else:
            kind = "mixed"
        tmpl[pos] = {"kind": kind, "evidence": r}
    return tmpl


# ------------------------------------------------------------------ z3 model
def lex_ok(body, q, s, L):
    """z3 formula: `q + body + q` lexes as ONE short string literal whose value is s (unrolled L steps).
    body, q, s: z3 strings."""
    NORMAL, ESC, HEX1, HEX2, BAD = 0, 1, 2, 3, 4
    state = z3.IntVal(NORMAL)
    out = z3.StringVal("")
    S = z3.StringVal
    simple = {"\\": "\\", "'": "'", '"': '"', "n": "\n", "r": "\r", "t": "\t", "a": "\a", "b": "\b", "f": "\f", "v": "\v"}
    for j in range(L):
        c = z3.SubString(body, j, 1)
        has = z3.Length(c) == 1
        is_nl = z3.Or(c == S("\n"), c == S("\r"))
        # NORMAL
        n_state = z3.If(c == q, BAD, z3.If(is_nl, BAD, z3.If(c == S("\\"), ESC, NORMAL)))
        n_out = z3.If(z3.Or(c == q, is_nl, c == S("\\")), out, z3.Concat(out, c))
        # ESC
        e_out = out
        e_state = z3.IntVal(BAD)  # escapes outside the modelled set: unsafe
        for k, v in simple.items():
            e_state = z3.If(c == S(k), NORMAL, e_state)
            e_out = z3.If(c == S(k), z3.Concat(out, S(v)), e_out)
        e_state = z3.If(c == S("x"), HEX1, e_state)
        # HEX: only \x00 is given a value; any other pair is unsafe
        h1_state = z3.If(c == S("0"), HEX2, BAD)
        h2_state = z3.If(c == S("0"), NORMAL, BAD)
        h2_out = z3.If(c == S("0"), z3.Concat(out, S("\x00")), out)
        new_state = z3.If(state == NORMAL, n_state, z3.If(state == ESC, e_state, z3.If(state == HEX1, h1_state,
                          z3.If(state == HEX2, h2_state, BAD))))
        new_out = z3.If(state == NORMAL, n_out, z3.If(state == ESC, e_out, z3.If(state == HEX2, h2_out, out)))
        state = z3.If(has, new_state, state)
        out = z3.If(has, new_out, out)
    return z3.And(state == NORMAL, out == s)


def repr_image(s, N):
    """z3 model of repr(str) restricted to the alphabet: returns (body, quote)"""
    S = z3.StringVal
    use_double = z3.And(z3.Contains(s, S("'")), z3.Not(z3.Contains(s, S('"'))))
    q = z3.If(use_double, S('"'), S("'"))
    parts = []
    for i in range(N):
        c = z3.SubString(s, i, 1)
        img = z3.If(c == S("\\"), S("\\\\"),
              z3.If(c == S("\n"), S("\\n"),
              z3.If(c == S("\r"), S("\\r"),
              z3.If(c == S("\x00"), S("\\x00"),
              z3.If(z3.And(c == S("'"), z3.Not(use_double)), S("\\'"), c)))))
        parts.append(img)
    return z3.Concat(*parts) if len(parts) > 1 else parts[0], q


def solve_template(kind, N, excluded):
    """search for s (|s| <= N over the alphabet minus excluded classes) that the model says is NOT data at a template of
    this kind; returns ('unsat'|'sat'|'unknown', s, stats)"""
    s = z3.String("s")
    sol = z3.Solver()
    sol.set("timeout", 120000)
    chars = [v for k, v in ALPHABET.items() if k not in excluded]
    sol.add(z3.Length(s) <= N, z3.Length(s) >= 1)
    for i in range(N):
        c = z3.SubString(s, i, 1)
        sol.add(z3.Or(z3.Length(c) == 0, *[c == z3.StringVal(ch) for ch in chars]))
    if kind == "raw-single-quoted":
        ok = lex_ok(s, z3.StringVal("'"), s, N)
    elif kind == "repr":
        return solve_repr_units(excluded)
    elif kind == "by-reference":
        return "unsat", None, {"note": "by reference: the string never reaches the source text"}
    else:
        return "unknown", None, {"note": "template kind %s is not modelled" % kind}
    sol.add(z3.Not(ok))
    t0 = time.time()
    r = sol.check()
    st = {"z3_time_s": round(time.time() - t0, 3), "result": str(r)}
    if str(r) == "sat":
        val = sol.model()[s]
        return "sat", val.as_string() if val is not None else "", st
    return ("unsat" if str(r) == "unsat" else "unknown"), None, st


def solve_repr_units(excluded):
    """repr() maps every character to a self-contained escape unit, so lexing repr(s) is decided unit by unit: for a symbolic
    character c of the alphabet and BOTH quote styles (use_double is a free Boolean, constrained only by repr's rule that
    double quotes are chosen only when s has no double quote), the lexer started in state NORMAL consumes image(c) completely,
    returns to NORMAL, meets no unescaped delimiter / raw newline and emits exactly c.  By induction over the length this covers
    strings of ANY length (in the model)."""
    S = z3.StringVal
    c = z3.String("c")
    use_double = z3.Bool("use_double")
    sol = z3.Solver()
    sol.set("timeout", 60000)
    chars = [v for k, v in ALPHABET.items() if k not in excluded]
    sol.add(z3.Or(*[c == S(ch) for ch in chars]))
    sol.add(z3.Implies(use_double, c != S('"')))
    img = z3.If(c == S("\\"), S("\\\\"),
          z3.If(c == S("\n"), S("\\n"),
          z3.If(c == S("\r"), S("\\r"),
          z3.If(c == S("\x00"), S("\\x00"),
          z3.If(z3.And(c == S("'"), z3.Not(use_double)), S("\\'"), c)))))
    q = z3.If(use_double, S('"'), S("'"))
    sol.add(z3.Not(lex_ok(img, q, c, 4)))
    t0 = time.time()
    r = sol.check()
    st = {"z3_time_s": round(time.time() - t0, 3), "result": str(r), "lemma": "per-character escape unit of repr()"}
    if str(r) == "sat":
        return "sat", sol.model()[c].as_string(), st
    return ("unsat" if str(r) == "unsat" else "unknown"), None, st


def z3_unescape(x):
    # z3 prints non-printables as \u{..}
    import re

    return re.sub(r"\\u\{([0-9a-fA-F]+)\}", lambda m: chr(int(m.group(1), 16)), x)


def class_of(s):
    """first character class of s (in alphabet order of appearance)"""
    inv = {v: k for k, v in ALPHABET.items()}
    return [inv[c] for c in s if c in inv]


def run(tier, seed):
    t0 = time.time()
    runner.T0_OVERRIDE = t0
    N = 4 if tier == "quick" else 6
    results = []
    smt_checks = 0
    smt_time = 0.0
    replays = 0
    try:
        templates = extract_templates()
    except Exception as e:
        results.append({"name": "template-extraction", "harness": "zs", "kind": "main", "final": "harness_error", "msg": repr(e)[:400]})
        return runner.run_property("C16", [], tier, seed, 60, bounds={"N": N}, assumptions=ASSUMPTIONS, extra_results=results)
    # (1) concrete per-class probes: validate the model (homomorphism assumption) and catch what lexing alone cannot see
    pairs = []
    for pos in POSITIONS:
        for cname, ch in ALPHABET.items():
            pairs.append((pos, "a" + ch + "b"))
        pairs.append((pos, "'+vf_sentinel()+'"))
        pairs.append((pos, "\"+vf_sentinel()+\""))
        pairs.append((pos, "x', MISSING) or vf_sentinel() or d.get('x"))
    real = real_behaviour(pairs)
    replays += len(pairs)
    bad_classes = {pos: {} for pos in POSITIONS}
    for (pos, s), rb in zip(pairs, real):
        if rb is not None:
            cls = class_of(s[1:-1]) if len(s) == 3 else ["payload"]
            bad_classes[pos].setdefault(cls[0] if cls else "payload", (s, rb))
    # (2) solver: per template kind, iterate: sat -> replay -> exclude that class -> ... -> unsat
    for pos in POSITIONS:
        kind = templates[pos]["kind"]
        excluded = []
        verdict = None
        models = []
        for _ in range(len(ALPHABET) + 2):
            r, sval, st = solve_template(kind, N, excluded)
            smt_checks += 1
            smt_time += st.get("z3_time_s", 0)
            if r == "unsat":
                verdict = "unsat"
                break
            if r == "unknown":
                verdict = "unknown"
                break
            sval = z3_unescape(sval)
            rb = real_behaviour([(pos, sval)])[0]
            replays += 1
            cls = class_of(sval)
            # which class does the model blame? the first class whose single-character string is unsafe in the model
            blame = None
            for cn in cls:
                r1, _, st1 = solve_single(kind, ALPHABET[cn])
                smt_checks += 1
                if r1 == "unsafe":
                    blame = cn
                    break
            if blame is None:
                blame = "+".join(cls[:2]) or "empty"
            models.append({"s": sval, "real": rb, "blamed_class": blame})
            if rb is not None:
                bad_classes[pos].setdefault(blame, (sval, rb))
            excluded.append(blame.split("+")[0])
        # report
        name = "%s[%s]" % (pos, kind)
        for cn, (sval, rb) in sorted(bad_classes[pos].items()):
            sig = "C16/unsafe-string:%s:%s" % (pos, cn)
            results.append({"name": name + ":" + cn, "harness": "zs", "kind": "main", "final": "violation", "sig": sig,
                            "call": "behaves(%r, %r)" % (pos, sval), "detail": {"position": pos, "string": sval, "real": rb,
                                                                                 "template": templates[pos]},
                            "msg": "real builder: %s" % rb, "replays": 0})
        if verdict == "unsat":
            results.append({"name": name, "harness": "zs", "kind": "main", "final": "discharged",
                            "msg": "unsat after excluding classes %s: every string over the remaining alphabet (|s| <= %d for raw "
                                   "templates; any length by the per-unit lemma for repr templates) lexes to exactly itself in the "
                                   "model" % (excluded, N), "models": models})
        elif kind == "mixed":
            results.append({"name": name, "harness": "zs", "kind": "main", "final": "inconclusive",
                            "msg": "template not recognised: %r" % (templates[pos],)})
        else:
            results.append({"name": name, "harness": "zs", "kind": "main", "final": "inconclusive", "msg": "z3: %s" % verdict})
    # vacuity guard: the same encoding must find an unsafe string for a raw single-quoted template, and it must replay
    r, sval, st = solve_template("raw-single-quoted", N, [])
    smt_checks += 1
    smt_time += st.get("z3_time_s", 0)
    if r == "sat":
        lit = "'" + z3_unescape(sval) + "'"
        try:
            ok = eval(lit) == z3_unescape(sval)
        except BaseException:
            ok = False
        results.append({"name": "reachability-twin[raw-single-quoted]", "harness": "zs", "kind": "twin",
                        "final": "witness" if not ok else "harness_error",
                        "msg": "model finds %r unsafe between single quotes; CPython agrees: %s" % (z3_unescape(sval), not ok),
                        "replays": 1})
    else:
        results.append({"name": "reachability-twin[raw-single-quoted]", "harness": "zs", "kind": "twin", "final": "harness_error",
                        "msg": "encoding is vacuous: no unsafe string found for a raw template (%s)" % r})
    results.append({"name": "z3-stats", "harness": "zs", "kind": "stats", "final": "witness", "smt_checks": smt_checks,
                    "smt_time": smt_time, "paths": smt_checks, "replays": replays})
    return runner.run_property(
        "C16", [], tier, seed, 60, bounds={"N": N, "alphabet": sorted(ALPHABET), "positions": POSITIONS},
        assumptions=ASSUMPTIONS,
        functions_note=["splice sites of CodeBuilder / pack.py / unpack.py as recorded in the generated source of this run: %s" %
                        {p: t["kind"] for p, t in templates.items()}],
        extra_results=results)


def solve_single(kind, ch):
    s = z3.StringVal(ch)
    sol = z3.Solver()
    if kind == "raw-single-quoted":
        ok = lex_ok(s, z3.StringVal("'"), s, 1)
    elif kind == "repr":
        body, q = repr_image(s, 1)
        ok = lex_ok(body, q, s, 4)
    else:
        return "safe", None, {}
    sol.add(z3.Not(ok))
    r = sol.check()
    return ("unsafe" if str(r) == "sat" else "safe"), None, {}
