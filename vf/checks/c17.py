"""C17 -- generated code is closed and binds every type by identity.
(a) XH: C03/C02-style harnesses (arbitrary inputs, so that error paths execute) over a family of awkward classes;
(b) ZS: z3 finds distinct type names with the same sanitised identifier; replayed on real classes;
(c) cross-check: every global name / dotted name in the recorded generated source resolves."""
import json
import os
import subprocess
import time

import z3

from vf import gen, runner
from vf.schemas import Schema

ASSUMPTIONS = [
    "CrossHair 0.0.110 + z3 5.1.0 for (a); z3 string theory for (b)",
    "(a) inputs as in C03 (arbitrary JSON-like value at the root / field, so error-reporting paths run) and values as in C02 for "
    "the encode direction; oracle: REF_DECODE + CONFORMS with class IDENTITY (type(x) is the annotated class object), and no "
    "NameError / AttributeError('module ... has no attribute' | '__mashumaro...') anywhere in any exception chain",
    "(b) sanitiser model: clean_id(name) replaces every non-word character by '_' (and prefixes a leading digit); z3 searches two "
    "different local type names with equal images; the pair is replayed by creating two real classes with those names in one schema",
    "(c) static cross-check over every source text handed to exec in this run: each loaded global / dotted module attribute "
    "resolves in the exec globals or builtins; a failure that (a) did not execute is reported as inconclusive, not as a violation",
    "class family enumerated in vf/checks/c17.py (same-named local classes of every kind, functional Enum/NamedTuple/TypedDict/"
    "make_dataclass classes bound to a different variable name, classes not importable by name, local dialects, "
    "MappingProxyType, defaultdict of a local class)",
]

PRELUDE = '''
def _mk_enum(v):
    class E(Enum):
        A = v
    return E
E1 = _mk_enum("one")
E2 = _mk_enum("two")

def _mk_dc(t):
    @dataclass
    class L(DataClassDictMixin):
        v: t
    return L
L1 = _mk_dc(int)
L2 = _mk_dc(str)

def _mk_plain(t):
    @dataclass
    class P:
        v: t
    return P
P1 = _mk_plain(int)
P2 = _mk_plain(datetime.date)

def _mk_nt(t):
    class N(NamedTuple):
        v: t
    return N
N1 = _mk_nt(int)
N2 = _mk_nt(str)

def _mk_td(t):
    class T(TypedDict):
        v: t
    return T
T1 = _mk_td(int)
T2 = _mk_td(str)

def _mk_str(doc):
    class Tag(str):
        __doc__ = doc
    return Tag
S1 = _mk_str("one")
S2 = _mk_str("two")

class Field(str):
    """a str subclass whose name is also a name of the library's own generated namespaces"""

class MISSING(str):
    pass

FnEnumVar = Enum("FnEnum", "A B")            # variable name differs from the class name
FnNTVar = NamedTuple("FnNT", [("a", int)])
FnTDVar = TypedDict("FnTD", {"a": int})
MadeDC = dataclasses.make_dataclass("Made", [("a", int)])
MadeMix = dataclasses.make_dataclass("MadeM", [("a", int)], bases=(DataClassDictMixin,))

def _mk_local():
    class LE(Enum):
        X = 1
    @dataclass
    class LD:
        e: LE
        m: Dict[str, LE] = field(default_factory=dict)
    return LE, LD
LE, LD = _mk_local()

import http
import string
NTI = NewType("NTI", int)
NTX = NewType("OtherName", int)   # bound to a variable name that differs from the NewType's own name
def _mk_newtype():
    return NewType("LocalNT", List[int])
NTL = _mk_newtype()
type TAI = int
type TAL = List[datetime.date]
def _mk_alias():
    type LocalAlias = int
    return LocalAlias
LAI = _mk_alias()

@dataclass
class AliasDC(DataClassDictMixin):
    a: TAI
    b: TAL
    c: Dict[str, LAI] = field(default_factory=dict)
import ipaddress as _ipa
GT = TypeVar("GT")

@dataclass
class Env(Generic[GT], DataClassDictMixin):
    payload: GT
    items: List[GT] = field(default_factory=list)

@dataclass
class EnvStatus(Env[http.HTTPStatus]):
    note: str = ""

@dataclass
class EnvAddr(Env[_ipa.IPv4Address]):
    pass

@dataclass
class Env1(Generic[GT], DataClassDictMixin):
    payload: GT

@dataclass
class Env1Status(Env1[http.HTTPStatus]):
    pass

@dataclass
class Env1Path(Env1[PurePosixPath]):
    extra: int = 0

def _parse_days(v):
    if type(v) is not list:
        raise ValueError(v)
    return [datetime.date.fromisoformat(x) for x in v]

def _parse_when(v):
    return tuple(_parse_days(v))

def _parse_ip(v):
    if type(v) is not str:
        raise ValueError(v)
    return _ipa.IPv4Address(v)

@dataclass
class Ovr(DataClassDictMixin):
    # PEP 585 generics whose conversion is overridden: the type is only NAMED, on the error-reporting paths
    days: list[datetime.date] = field(metadata={"deserialize": _parse_days})
    n: int = 0

@dataclass
class Ovr2(DataClassDictMixin):
    when: tuple[datetime.date, ...] = field(metadata={"deserialize": _parse_when})
    addr: Optional[_ipa.IPv4Address] = field(default=None, metadata={"deserialize": _parse_ip})

@dataclass
class TwoEnums(DataClassDictMixin):
    x: E1
    y: E2

@dataclass
class TwoDC(DataClassDictMixin):
    x: L1
    y: L2

@dataclass
class TwoPlain:
    x: P1
    y: P2

@dataclass
class TwoNT(DataClassDictMixin):
    x: N1
    y: N2

@dataclass
class TwoTD(DataClassDictMixin):
    x: T1
    y: T2
'''
TYPES = [
    ("two_enums", "TwoEnums"), ("two_dc", "TwoDC"), ("two_plain", "TwoPlain"), ("two_nt", "TwoNT"), ("two_td", "TwoTD"),
    ("tuple_enums", "Tuple[E1, E2]"), ("tuple_dc", "Tuple[L1, L2]"), ("union_plain", "Union[P1, P2]"),
    ("fn_enum", "FnEnumVar"), ("fn_nt", "FnNTVar"), ("fn_td", "FnTDVar"), ("made_dc", "MadeDC"), ("made_mix", "MadeMix"),
    ("list_made", "List[MadeDC]"), ("local_dc", "LD"), ("mproxy", "MappingProxyType[str, LE]"),
    ("ddict_local", "DefaultDict[str, LD]"), ("ddict_enum", "DefaultDict[str, LE]"), ("opt_local", "Optional[LD]"),
    ("lit_local_enum", "Literal[LE.X]"), ("dict_enum_key", "Dict[E1, E2]"), ("mproxy_int", "MappingProxyType[str, int]"),
    ("pep604_fn_enum", "FnEnumVar | None"), ("pep604_made", "List[MadeDC | None]"), ("pep604_two", "E1 | E2"),
    ("pep604_nt", "Dict[str, FnNTVar | int]"),
    ("env_status", "EnvStatus"), ("env_addr", "EnvAddr"), ("env1_status", "Env1Status"), ("env1_path", "Env1Path"), ("env_generic", "Env[http.HTTPStatus]"),
    ("odict_made", "OrderedDict[str, MadeDC]"), ("counter", "Counter[str]"), ("chain_fn", "ChainMap[str, FnEnumVar]"),
    # names that exist only in the annotation (NewType, Annotated, PEP 695 alias) as scalar members of a union
    ("u_newtype", "Union[NTI, str]"), ("u_annot", "Union[Annotated[int, 'm'], str]"), ("u_alias", "Union[TAI, str]"),
    ("alias_dc", "AliasDC"), ("alias_list", "List[TAL]"), ("alias_local", "Tuple[LAI, TAI]"),
    ("ovr", "Ovr"), ("ovr2", "Ovr2"), ("newtype_misnamed", "Tuple[NTX, str]"), ("newtype_local", "Dict[str, NTL]"),
    ("newtype_opt", "Optional[NTX]"),
    ("u_newtype_list", "List[Union[NTI, datetime.date]]"),
    # str subclasses as union members (they get an exact-type test by name): same-named local ones, and names that the
    # generated namespaces already use for something else
    ("u_strsub_two", "Union[S1, S2, int]"), ("u_strsub_field", "Union[Field, int]"), ("u_strsub_missing", "Union[MISSING, int]"),
    ("dc_strsub", "Dict[str, Union[S2, Field]]"),
]


def harnesses(tier, seed):
    hs, skipped = [], []
    for n, t in TYPES:
        s = Schema(n, t, PRELUDE)
        for variant in ("codec", "field"):
            if tier == "quick" and variant == "field" and n.startswith(("two_", "local", "ddict")):
                continue
            try:
                if "strsub" not in n:
                    # (a str subclass member is passed through / coerced with str(): what arbitrary input becomes there is
                    # not stated; the round trip of conforming values below is)
                    hs.append(gen.custom_harness("C17", "c03", s, variant, "prefix='C17'", "prefix='C17'", name_suffix="_dec"))
                hs.append(gen.value_harness("C17", "c02", s, variant, "Bounds(maxlen=1)", setup_kwargs="has_any=True, prefix='C17'",
                                            name_suffix="_enc"))
                if n not in ("lit_local_enum",):
                    # round trip with identical classes: a decoder bound to the wrong (same-named) class shows here
                    hs.append(gen.value_harness("C17", "c01", s, variant, "Bounds(maxlen=1)", setup_kwargs="prefix='C17'",
                                                name_suffix="_rt"))
            except Exception as e:
                skipped.append((n, variant, "%s: %s" % (type(e).__name__, str(e)[:300])))
    return hs, skipped


# ------------------------------------------------------------------ (b) sanitiser collisions
def find_collision():
    """z3: two different names a.f.<locals>.K-style with the same clean_id image"""
    a, b = z3.String("a"), z3.String("b")
    sol = z3.Solver()
    sol.set("timeout", 60000)
    alphabet = ["m", "x", "K", "_", ".", "1"]
    n = 5

    def img(s, i):
        c = z3.SubString(s, i, 1)
        return z3.If(z3.Or(c == z3.StringVal("."), c == z3.StringVal("_")), z3.StringVal("_"), c)

    for s in (a, b):
        sol.add(z3.Length(s) == n)
        for i in range(n):
            sol.add(z3.Or(*[z3.SubString(s, i, 1) == z3.StringVal(ch) for ch in alphabet]))
        sol.add(z3.SubString(s, 0, 1) == z3.StringVal("m"), z3.SubString(s, n - 1, 1) == z3.StringVal("K"))
        sol.add(z3.SubString(s, n - 2, 1) == z3.StringVal("."))  # module path ends before the class name
        for i in range(n - 1):  # no empty path components
            sol.add(z3.Not(z3.And(z3.SubString(s, i, 1) == z3.StringVal("."), z3.SubString(s, i + 1, 1) == z3.StringVal("."))))
    sol.add(a != b)
    for i in range(n):
        sol.add(img(a, i) == img(b, i))
    t0 = time.time()
    r = sol.check()
    st = {"z3_time_s": round(time.time() - t0, 3)}
    if str(r) == "sat":
        m = sol.model()
        return m[a].as_string(), m[b].as_string(), st
    return None, None, st


COLLISION_REPLAY = r'''
import sys, json
sys.path.insert(0, __VF_ROOT__)
from vf.hprelude import *
na, nb = json.loads(%r)
def mk(qual_module, t):
    # a local class whose module path is the z3-chosen one
    def f():
        @dataclass
        class K(DataClassDictMixin):
            v: t
        return K
    K = f()
    K.__module__ = qual_module
    return K
def build(qa, qb):
    ns = {}
    A = dataclasses.make_dataclass("K", [("v", int)], bases=(DataClassDictMixin,),
                                   namespace={"__module__": qa, "__qualname__": "f.<locals>.K"})
    B = dataclasses.make_dataclass("K", [("v", str)], bases=(DataClassDictMixin,),
                                   namespace={"__module__": qb, "__qualname__": "f.<locals>.K"})
    H = dataclasses.make_dataclass("H", [("a", A), ("b", B)], bases=(DataClassDictMixin,))
    return A, B, H
A, B, H = build(na.rsplit(".", 1)[0], nb.rsplit(".", 1)[0])
out = {}
try:
    h = H.from_dict({"a": {"v": 1}, "b": {"v": "s"}})
    out["a_is_A"] = type(h.a) is A
    out["b_is_B"] = type(h.b) is B
    out["b_v"] = repr(h.b.v)
    out["enc"] = H(A(1), B("s")).to_dict()
except Exception as e:
    out["exc"] = "%%s: %%s" %% (type(e).__name__, e)
print("VFOUT " + json.dumps(out))
'''


def collision_result():
    na, nb, st = find_collision()
    res = {"name": "clean_id-collision", "harness": "zs", "kind": "main", "smt_checks": 1, "smt_time": st["z3_time_s"], "paths": 1}
    if na is None:
        res.update(final="discharged", msg="no two distinct names with equal sanitised images within the bound")
        return res
    env = dict(os.environ, PYTHONPATH=runner.PYPATH)
    p = subprocess.run([runner.PY, "-c", COLLISION_REPLAY.replace('__VF_ROOT__', repr(runner.ROOT)) % json.dumps([na, nb])], capture_output=True, text=True, env=env, timeout=120)
    out = None
    for ln in p.stdout.splitlines():
        if ln.startswith("VFOUT "):
            out = json.loads(ln[6:])
    res["replays"] = 1
    if out is None:
        res.update(final="harness_error", msg="collision replay failed: %s" % p.stderr[-400:])
    elif out.get("a_is_A") and out.get("b_is_B") and out.get("b_v") == "'s'" and "exc" not in out:
        res.update(final="discharged", msg="z3 model %r / %r have equal sanitised identifiers, but the real builder keeps the two "
                                           "classes apart (replayed)" % (na, nb))
    else:
        res.update(final="violation", sig="C17/sanitised-name-collision", call="two local classes %r and %r in one schema" % (na, nb),
                   detail={"names": [na, nb], "observed": out}, msg=str(out)[:300])
    return res


# ------------------------------------------------------------------ (c) static closure cross-check
CLOSURE = r'''
import ast, builtins, sys, json, types
sys.path.insert(0, __VF_ROOT__)
from vf import hlib
from vf.hprelude import *
%s
problems = []
for name, texpr in %r:
    try:
        T = eval(texpr)
        BasicDecoder(T); BasicEncoder(T)
        W = dataclasses.make_dataclass("W", [("x", T)], bases=(DataClassDictMixin,))
    except Exception as e:
        problems.append({"type": name, "problem": "build-raised:%%s: %%s" %% (type(e).__name__, str(e)[:160])})
for src, g in hlib.EXECS:
    if g is None:
        continue
    try:
        tree = ast.parse(src)
    except SyntaxError as e:
        problems.append({"problem": "generated source does not parse", "src": src[:200]})
        continue
    local = set()
    for node in ast.walk(tree):
        if isinstance(node, ast.arg):
            local.add(node.arg)
        elif isinstance(node, ast.Name) and isinstance(node.ctx, (ast.Store, ast.Del)):
            local.add(node.id)
        elif isinstance(node, (ast.FunctionDef, ast.ClassDef)):
            local.add(node.name)
        elif isinstance(node, ast.ExceptHandler) and node.name:
            local.add(node.name)
    for node in ast.walk(tree):
        if isinstance(node, ast.Attribute):
            chain = []
            n = node
            while isinstance(n, ast.Attribute):
                chain.append(n.attr)
                n = n.value
            if isinstance(n, ast.Name) and n.id in g and n.id not in local and isinstance(g[n.id], types.ModuleType):
                obj = g[n.id]
                path = n.id
                for a in reversed(chain):
                    if not isinstance(obj, (types.ModuleType, type)):
                        break
                    if not hasattr(obj, a):
                        problems.append({"problem": "dotted name does not resolve", "name": path + "." + a})
                        break
                    obj = getattr(obj, a)
                    path += "." + a
        elif isinstance(node, ast.Name) and isinstance(node.ctx, ast.Load):
            if node.id not in local and node.id not in g and not hasattr(builtins, node.id) and node.id not in ("cls", "self"):
                problems.append({"problem": "global name not bound", "name": node.id})
uniq = []
for p in problems:
    if p not in uniq:
        uniq.append(p)
print("VFOUT " + json.dumps({"execs": len(hlib.EXECS), "problems": uniq[:40]}))
'''


def closure_result(executed_sigs, out_violations=None):
    env = dict(os.environ, PYTHONPATH=runner.PYPATH)
    p = subprocess.run([runner.PY, "-c", CLOSURE.replace('__VF_ROOT__', repr(runner.ROOT)) % (PRELUDE, TYPES)], capture_output=True, text=True, env=env, timeout=300)
    out = None
    for ln in p.stdout.splitlines():
        if ln.startswith("VFOUT "):
            out = json.loads(ln[6:])
    res = {"name": "static-closure-cross-check", "harness": "static", "kind": "main"}
    if out is None:
        res.update(final="harness_error", msg="closure scan failed: %s" % p.stderr[-500:])
    if out is not None and out_violations is not None:
        # a class whose (de)serializers cannot even be generated violates "every (de)serializer can execute all its paths"
        for pr in list(out["problems"]):
            if "type" in pr:
                out_violations.append({"name": "build:%s" % pr["type"], "harness": "generator", "kind": "main", "final": "violation",
                                       "sig": "C17/build-failure:%s:%s" % (pr["type"], pr["problem"].split(":")[1]),
                                       "call": "BasicDecoder/BasicEncoder/field of %s" % pr["type"], "msg": pr["problem"],
                                       "detail": pr, "replays": 1})
                out["problems"].remove(pr)
    if out is None:
        pass
    elif not out["problems"]:
        res.update(final="discharged", msg="%d exec'ed sources scanned: every global and dotted module attribute resolves" % out["execs"])
    else:
        res.update(final="inconclusive", msg="cross-check only (not a verdict): %s" % json.dumps(out["problems"])[:900])
    return res


def run(tier, seed):
    hs, skipped = harnesses(tier, seed)
    extra = []
    for n, v, e in skipped:
        extra.append({"name": "build:%s:%s" % (n, v), "harness": "generator", "kind": "main", "final": "violation",
                      "sig": "C17/build-failure:%s" % n, "call": "building codecs for %s" % n, "msg": e, "detail": {"type": n, "error": e}})
    extra.append(collision_result())
    extra.append(closure_result(None, extra))
    return runner.run_property(
        "C17", hs, tier, seed, 90 if tier == "quick" else 300,
        bounds={"types": len(TYPES), "arb_depth": 1, "collision_name_len": 5},
        assumptions=ASSUMPTIONS,
        functions_note=["generated decode/encode/from_dict/to_dict of the awkward-class family incl. their error paths",
                        "mashumaro.core.meta.types.common.clean_id (z3 model of the sanitiser)"],
        extra_results=extra)
