from vf import gen, runner, schemas
from vf.schemas import Schema, COMMON_PRELUDE

ASSUMPTIONS = [
    "CrossHair 0.0.110 model of Python and z3 5.1.0; containers are real Python objects assembled in the harness from symbolic "
    "scalars, so `is` is real identity",
    "expected sharing under no_copy_collections N: a container whose origin type is in N and whose elements are of type "
    "int/float/bool/str/None/Any MUST be passed by reference; containers of Optional[scalar] MAY be; every other mutable "
    "container must not be shared; with the default dialect nothing may be shared (Any positions excepted)",
    "object unchanged: compared with a twin built from the same symbolic scalars; same for decode inputs",
    "schemas x no-copy sets enumerated (vf/checks/c18.py); variant mpfield: the wrapper class is a msgpack + orjson mixin, so "
    "methods of the same class are also compiled under the format dialects (no_copy_collections = list, dict); to_dict / "
    "from_dict must still follow the default dialect",
]
TYPES = [
    ("li", "List[int]"), ("ls", "List[str]"), ("loi", "List[Optional[int]]"), ("ldate", "List[datetime.date]"),
    ("dsi", "Dict[str, int]"), ("dsl", "Dict[str, List[int]]"), ("lli", "List[List[int]]"), ("oli", "Optional[List[int]]"),
    ("si", "Set[int]"), ("fsi", "FrozenSet[int]"), ("dq", "Deque[int]"), ("tli", "Tuple[List[int], ...]"),
    ("u_li_d", "Union[Dict[str, int], List[int]]"), ("mix_l", "Gen[int]"), ("od", "OrderedDict[str, int]"),
    ("lany", "List[Any]"), ("any", "Any"), ("td", "TDict"), ("nt", "NT"), ("plain", "Plain"), ("cm", "ChainMap[str, int]"),
    ("dd", "DefaultDict[str, List[int]]"), ("seq", "Sequence[int]"), ("map", "Mapping[str, int]"), ("lb", "List[bytes]"),
    ("ba", "bytearray"), ("u_date_li", "Union[datetime.date, List[int]]"), ("u_date_dsi", "Union[datetime.date, Dict[str, int]]"),
]
STYPE_PRELUDE = COMMON_PRELUDE + '''
@dataclass
class Bag(SerializableType, use_annotations=True):
    items: List[int]

    def _serialize(self) -> List[int]:
        return self.items  # hands out its own list: the annotation-driven rendering is what copies it

    @classmethod
    def _deserialize(cls, value: List[int]) -> "Bag":
        return cls(value)

@dataclass
class Shelf(SerializableType, use_annotations=True):
    rows: List[List[int]]

    def _serialize(self) -> Dict[str, List[List[int]]]:
        return {"rows": self.rows}  # a new dict around the object's own lists

    @classmethod
    def _deserialize(cls, value: Dict[str, List[List[int]]]) -> "Shelf":
        return cls(value["rows"])
'''
STYPES = [("bag", "Bag"), ("shelf", "Shelf"), ("lbag", "List[Bag]")]
MPFIELD = ("li", "dsl", "lli", "u_li_d", "u_date_li", "u_date_dsi", "oli", "lany")
NOCOPY = {"none": "()", "list": "(list,)", "dict": "(dict,)", "ld": "(list, dict)", "set": "(set,)",
          "all": "(list, dict, set, frozenset, tuple, collections.deque, collections.OrderedDict)"}


def harnesses(tier, seed):
    hs, skipped = [], []
    for tn, texpr in TYPES:
        for nn, nsrc in NOCOPY.items():
            if tier == "quick" and nn in ("dict", "set") and tn not in ("dsi", "si", "dsl"):
                continue
            for variant in ("codec", "field"):
                if tier == "quick" and variant == "field" and nn not in ("none", "ld"):
                    continue
                s = Schema("%s_%s" % (tn, nn), texpr, COMMON_PRELUDE)
                try:
                    hs.append(gen.value_harness("C18", "c18", s, variant, "Bounds(maxlen=2)", setup_kwargs="no_copy=%s" % nsrc))
                except Exception as e:
                    skipped.append((s.name, variant, repr(e)[:200]))
    for tn, texpr in STYPES:
        for nn in ("none", "ld"):
            for variant in ("codec", "field"):
                s = Schema("%s_%s" % (tn, nn), texpr, STYPE_PRELUDE)
                try:
                    hs.append(gen.value_harness("C18", "c18", s, variant, "Bounds(maxlen=2)", setup_kwargs="no_copy=%s" % NOCOPY[nn]))
                except Exception as e:
                    skipped.append((s.name, variant, repr(e)[:200]))
    for tn, texpr in TYPES:
        if tn in MPFIELD:
            for nn in ("none",) if tier == "quick" else ("none", "ld"):
                s = Schema("%s_%s" % (tn, nn), texpr, COMMON_PRELUDE)
                try:
                    hs.append(gen.value_harness("C18", "c18", s, "mpfield", "Bounds(maxlen=2)", setup_kwargs="no_copy=%s" % NOCOPY[nn]))
                except Exception as e:
                    skipped.append((s.name, "mpfield", repr(e)[:200]))
    return hs, skipped


def run(tier, seed):
    hs, skipped = harnesses(tier, seed)
    extra = [{"name": "build:%s:%s" % (n, v), "harness": "generator", "kind": "main", "final": "harness_error", "msg": e}
             for n, v, e in skipped]
    return runner.run_property(
        "C18", hs, tier, seed, 60 if tier == "quick" else 200,
        bounds={"maxlen": 2, "types": len(TYPES), "no_copy_sets": len(NOCOPY)},
        assumptions=ASSUMPTIONS,
        functions_note=["generated to_dict/from_dict and codec encode/decode for every (type, no_copy set)"],
        extra_results=extra)
