from vf import gen, runner
from vf.schemas import Schema

ASSUMPTIONS = [
    "CrossHair 0.0.110 model of Python and z3 5.1.0",
    "solver variables: list lengths (<= 2), union member selectors, None-ness, dict key presence, int field values",
    "expected trace: pre-order __pre_serialize__ / post-order __post_serialize__ over the dataclass instances of the value; "
    "__post_deserialize__ once per instance of the result in post-order, __pre_deserialize__ in pre-order",
    "format entry points (orjson, msgpack mixins) run with identity transports (the C libraries are outside, see C04)",
    "schemas enumerated (vf/checks/c19.py): nested, list, dict, Optional, every member position of unions, inherited hooks, "
    "plain (non-mixin) dataclasses through codecs, ADD_SERIALIZATION_CONTEXT; unions whose FIRST member is a class without hooks "
    "and without the context option (OutV): the context must still reach the later, opted-in member",
    "dispatch through a Config field discriminator (Shape <- Circle, Sq with inherited / overridden hooks) entered through the "
    "root's from_dict, a List[root] field, a codec for the root and the variant itself: EXACT pre/post traces (no union "
    "speculation is involved)",
]

HOOKS = '''
    def __pre_serialize__(self{ctxarg}):
        LOG.append(("pre_ser", type(self).__name__, id(self), {ctxval}))
        return self
    def __post_serialize__(self, d{ctxarg}):
        LOG.append(("post_ser", type(self).__name__, id(self), {ctxval}))
        return d
    @classmethod
    def __pre_deserialize__(cls, d):
        LOG.append(("pre_de", cls.__name__, id(d), None))
        return d
    @classmethod
    def __post_deserialize__(cls, obj):
        LOG.append(("post_de", type(obj).__name__, id(obj), None))
        return obj
'''


REPL = '''
@dataclass
class Repl{b}:
    a: int = -1
    b: int = 0
    def __pre_serialize__(self):
        return Repl(self.a + 1, self.b)
    def __post_serialize__(self, d):
        return {{"a": d["a"], "b": d["b"], "extra": 1}}
    @classmethod
    def __pre_deserialize__(cls, d):
        return {{}} if d.get("reset") else {{k: v for k, v in d.items() if k != "b"}}
    @classmethod
    def __post_deserialize__(cls, obj):
        return Repl(obj.a, obj.b + 100)
'''


def prelude(base, context=False):
    hooks = HOOKS.format(ctxarg=", context=None" if context else "", ctxval="context" if context else "None",
           bcomma="" if base == "object" else ", " + base)
    cfg = "    class Config(BaseConfig):\n        code_generation_options = [ADD_SERIALIZATION_CONTEXT]\n" if context else ""
    imp = {"DataClassDictMixin": "", "DataClassORJSONMixin": "from mashumaro.mixins.orjson import DataClassORJSONMixin\n",
           "DataClassMessagePackMixin": "from mashumaro.mixins.msgpack import DataClassMessagePackMixin\n", "object": ""}[base]
    b = "" if base == "object" else "(%s)" % base
    return imp + "from vf.props.c19 import LOG\n" + '''
@dataclass
class M1{b}:
    a: int
{cfg}{hooks}
@dataclass
class M2{b}:
    b: int
    c: int = 0
{cfg}{hooks}
@dataclass
class Child(M1):
    z: int = 0

@dataclass
class Chain{b}:
    v: int
    nxt: Optional[Self] = None
    more: List[Self] = field(default_factory=list)
{cfg}{hooks}
BT = TypeVar("BT")

@dataclass
class Box(Generic[BT]{bcomma}):
    item: BT
{cfg}{hooks}
@dataclass
class PostOnly{b}:
    p: int = 0
{cfg}
    def __post_serialize__(self, d{ctxarg}):
        LOG.append(("post_ser", type(self).__name__, id(self), {ctxval}))
        return d
    @classmethod
    def __post_deserialize__(cls, obj):
        LOG.append(("post_de", type(obj).__name__, id(obj), None))
        return obj

@dataclass
class NoHook{b}:
    m: M1
{cfg}
@dataclass
class Out{b}:
    i: M1
    l: List[M1]
    o: Optional[M2] = None
{cfg}{hooks}
@dataclass
class OutU{b}:
    u: Union[M1, M2]
    lu: List[Union[M2, M1]]
{cfg}{hooks}
@dataclass
class NoCtx{b}:
    # no hooks and NO code generation options of its own (in the context preludes the other classes opt in)
    q: int

@dataclass
class OutV{b}:
    v: Union[NoCtx, M1]
    lv: List[Union[NoCtx, M2]]
{cfg}{hooks}
@dataclass
class OutM{b}:
    d: Dict[str, M1]
    n: NoHook
    t: Tuple[M1, M2]
    c: Child
    po: List[PostOnly]
    opo: Optional[PostOnly] = None
{cfg}{hooks}
'''.format(b=b, cfg=cfg, hooks=hooks, ctxarg=", context=None" if context else "", ctxval="context" if context else "None",
           bcomma="" if base == "object" else ", " + base)


def disc_prelude(base):
    hooks = HOOKS.format(ctxarg="", ctxval="None")
    imp = {"DataClassDictMixin": "", "DataClassORJSONMixin": "from mashumaro.mixins.orjson import DataClassORJSONMixin\n"}[base]
    return imp + "from vf.props.c19 import LOG\n" + '''
@dataclass
class Shape({base}):
    k: int = 0
    class Config(BaseConfig):
        discriminator = Discriminator(field="type", include_subtypes=True)
{hooks}
@dataclass
class Circle(Shape):
    type: str = "circle"
    r: int = 0

@dataclass
class Sq(Shape):
    type: str = "sq"
    r: int = 1
    @classmethod
    def __pre_deserialize__(cls, d):
        LOG.append(("pre_de", cls.__name__, id(d), None))
        return d
'''.format(base=base, hooks=hooks)


def harnesses(tier, seed):
    hs = []
    for base in ("DataClassDictMixin", "DataClassORJSONMixin"):
        hs.append(gen.custom_harness("C19", "c19", Schema("disc_%s" % base[:12], "Shape", disc_prelude(base)), "disc", "", ""))
    combos = [("DataClassDictMixin", "mixin", False), ("object", "codec", False), ("DataClassDictMixin", "mixin", True),
              ("DataClassORJSONMixin", "orjson", False), ("DataClassMessagePackMixin", "msgpack", False),
              ("DataClassDictMixin", "codec", False)]
    types = ["Out", "OutU", "OutV", "OutM", "Chain", "Repl", "List[Repl]", "Union[Box[int], M2]", "List[Union[Box[int], M1]]", "Union[M1, M2]", "List[Union[M1, M2]]", "Optional[M2]", "Dict[str, Union[M2, M1]]",
             "Tuple[M1, ...]"]
    for base, variant, context in combos:
        for t in types:
            if variant != "codec" and not (t.startswith("Out") or t in ("Repl", "Chain")):
                continue
            if t.endswith("Repl") or t.endswith("Repl]"):
                if context:
                    continue
                s = Schema("%s_%s" % (t, base[:12]), t, prelude(base, context) + REPL.format(b="" if base == "object" else "(%s)" % base))
                hs.append(gen.value_harness("C19", "c19", s, variant, "Bounds(maxlen=2)", setup_kwargs="context=False, repl=True"))
                continue
            if tier == "quick" and variant in ("orjson", "msgpack") and t != "OutU":
                continue
            s = Schema("%s_%s%s" % (t, base[:12], "_ctx" if context else ""), t, prelude(base, context))
            hs.append(gen.value_harness("C19", "c19", s, variant, "Bounds(maxlen=2)", setup_kwargs="context=%r" % context))
    return hs


def run(tier, seed):
    hs = harnesses(tier, seed)
    return runner.run_property(
        "C19", hs, tier, seed, 60 if tier == "quick" else 200,
        bounds={"maxlen": 2, "schemas": len(hs)},
        assumptions=ASSUMPTIONS,
        functions_note=["generated to_dict/from_dict with hook calls for M1, M2, Child, NoHook, Out, OutU, OutM",
                        "union packers/unpackers (speculative try-each-member)", "codec encode/decode"])
