from vf import gen, runner
from vf.schemas import Schema

ASSUMPTIONS = [
    "CrossHair 0.0.110 model of Python and z3 5.1.0",
    "(i) configuration cube {omit_none, omit_default, serialize_by_alias in unset/F/T} x Config.dialect x aliases x all_refs x "
    "dialect x with_definitions per type family: the selectors are solver variables but the class family and the schema are built "
    "untraced from realised selectors (types cannot be symbolic), so the solver ENUMERATES this finite cube exhaustively",
    "(ii) sequences of 1..3 JSONSchemaBuilder.build calls over a type pool chosen by selectors; same remark; every result is also "
    "compared with the schema of the same type built in an interpreter of its own (nothing else ever built there), after the "
    "whole pool has been built once in the checking process: a build that leaks state into later builds is reported",
    "(iii) genuinely symbolic: JSONSchema.from_dict(doc).to_dict() == doc on schema-shaped documents with symbolic keyword "
    "presence and symbolic const/default (incl. None) -- the model class's generated code and its hand-written pre/post "
    "serialize hooks run traced; and build_json_schema with a symbolic ref_prefix string (len <= 4)",
    "metaschema validity by the real jsonschema package's bundled Draft 2020-12 metaschema",
]
KINDS = ["defaults", "nested", "selfref", "generic", "ntfield", "ntfwd", "deser_only", "ser_fn", "ann_meta", "nonefield", "ann_generic", "slots", "aliases", "plain", "list_int", "dict_str_date", "opt_union", "tuple", "nt", "color", "any"]


def harnesses(tier, seed):
    hs = []
    s = Schema("x", "int", "")
    for k in (KINDS if tier != "quick" else ["defaults", "nested", "selfref", "ntfield", "ntfwd", "deser_only", "ser_fn", "ann_meta", "ann_generic", "slots", "aliases"]):
        kw = "kind=%r" % k
        hs.append(gen.custom_harness("C20", "c20", Schema("cube_" + k, "int", ""), "cube", kw, kw))
    pool = (("nested", "generic", "plain", "list_int", "nt", "defaults", "nonefield") if tier != "quick"
            else ("nested", "generic", "plain", "nt", "nonefield"))
    kw = "pool=%r" % (pool,)
    hs.append(gen.custom_harness("C20", "c20", Schema("seq", "int", ""), "seq", kw, kw))
    kw2 = "pool=%r" % (("selfref", "plain"),)
    hs.append(gen.custom_harness("C20", "c20", Schema("seq_selfref", "int", ""), "seq", kw2, kw2))
    groups = [("type", "title", "const", "default"), ("enum", "minimum", "properties", "anyOf"),
              ("format", "additionalProperties", "const", "properties"), ("default", "anyOf", "type", "format")]
    for j, g in enumerate(groups):
        kwd = "keys=%r" % (g,)
        hs.append(gen.custom_harness("C20", "c20", Schema("doc%d" % j, "int", ""), "doc", kwd, kwd))
    hs.append(gen.custom_harness("C20", "c20", Schema("prefix", "int", ""), "prefix"))
    return hs


def run(tier, seed):
    hs = harnesses(tier, seed)
    return runner.run_property(
        "C20", hs, tier, seed, 420 if tier == "quick" else 900,
        bounds={"cube": "3^3 x 2^5 = 864 configurations per type family", "families": len(KINDS), "build_sequence": 3,
                "ref_prefix": "'#/x' + symbolic tail, len <= 2", "doc_keyword_groups": 4},
        assumptions=ASSUMPTIONS,
        functions_note=["mashumaro.jsonschema.build_json_schema / JSONSchemaBuilder (untraced, per realised selector)",
                        "JSONSchema.__mashumaro_from_dict__/__mashumaro_to_dict__, JSONSchema.__pre_serialize__/__post_serialize__ "
                        "(traced, symbolic documents)", "build_json_schema with symbolic ref_prefix (traced)"],
        extra_cov={"exhaustive": True})
