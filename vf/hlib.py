"""Harness-side helpers. Imported by generated harness modules, both under CrossHair
(symbolic run) and under plain Python (replay)."""
import contextlib
import sys

try:  # CrossHair is present in /verif/.venv; replays also run there, untraced.
    from crosshair.util import ControlFlowException as _CF
    from crosshair.tracers import NoTracing as _NoTracing, is_tracing as _is_tracing
except Exception:  # pragma: no cover
    class _CF(BaseException):
        pass

    _NoTracing = None

    def _is_tracing():
        return False


# ---------------------------------------------------------------- control flow
def cf_guard(exc):
    """The generated per-field handler is a bare ``except:``; CrossHair's path steering
    exceptions are BaseException and would be swallowed into InvalidFieldValue.
    Walk the chain of a caught exception and re-raise any of them."""
    seen = set()
    stack = [exc]
    while stack:
        e = stack.pop()
        if e is None or id(e) in seen:
            continue
        seen.add(id(e))
        if isinstance(e, _CF):
            raise e
        stack.append(e.__cause__)
        stack.append(e.__context__)


def call(fn, *a, **kw):
    """Run fn; return ('ok', value) or ('exc', exception) for ordinary exceptions."""
    try:
        return ("ok", fn(*a, **kw))
    except Exception as e:  # only Exception: path steering must propagate
        cf_guard(e)
        return ("exc", e)


def notrace():
    if _NoTracing is not None and _is_tracing():
        return _NoTracing()
    return contextlib.nullcontext()


def tracing():
    return _is_tracing()


def pick(sel, n):
    """Realise a bounded selector by an if-chain (never index by a symbolic int)."""
    for k in range(n):
        if sel == k:
            return k
    raise AssertionError("selector out of range")


def realbool(b):
    if b:
        return True
    return False


# ---------------------------------------------------------------- failure record
LAST = {}


def fail(sig, **detail):
    """Record why the postcondition is false (read back by the replayer) and return False."""
    LAST.clear()
    LAST["sig"] = sig
    if _is_tracing():
        # under CrossHair nothing symbolic may outlive the path (a module global holding a symbolic str trips the engine's
        # end-of-path bookkeeping); the replay run records the details
        LAST["detail"] = {}
    else:
        try:
            LAST["detail"] = {k: _short(v) for k, v in detail.items()}
        except Exception:
            LAST["detail"] = {}
    import os
    if os.environ.get("VF_DEBUG"):
        try:
            sys.stderr.write("VFFAIL %s %r\n" % (sig, sorted(detail)))
        except Exception:
            pass
    return False


def _short(v, n=400):
    try:
        r = repr(v)
    except Exception as e:  # pragma: no cover
        r = "<unreprable %s>" % type(e).__name__
    return r if len(r) <= n else r[:n] + "..."


# ---------------------------------------------------------------- generated source capture
SOURCES = []
EXECS = []  # (source, globals dict) of every exec


def install_exec_shim():
    """Record every source text mashumaro hands to exec().  A module global named
    ``exec`` shadows the builtin in the four modules that call it; /repo is untouched."""
    import builtins
    import importlib

    mods = []
    for name in ("mashumaro.core.meta.code.builder", "mashumaro.core.meta.types.common", "mashumaro.core.meta.types.pack",
                 "mashumaro.core.meta.types.unpack", "mashumaro.codecs._builder"):
        try:
            mods.append(importlib.import_module(name))
        except Exception:  # a refactoring may move modules: source capture then simply sees less
            pass
    if not mods:
        return
    b = mods[0]
    if getattr(b, "_vf_shim", False):
        return

    def rec_exec(code, g=None, l=None):
        if isinstance(code, str):
            SOURCES.append(code)
            EXECS.append((code, g))
        if g is None:
            f = sys._getframe(1)
            return builtins.exec(code, f.f_globals, f.f_locals)
        if l is None:
            return builtins.exec(code, g)
        return builtins.exec(code, g, l)

    for m in mods:
        m.exec = rec_exec
    b._vf_shim = True


def generated_function_names():
    import re

    names = []
    for s in SOURCES:
        names += re.findall(r"^\s*def (\w+)\(", s, re.M)
    return names


def harvested_literals():
    """String literals that generated code uses as keys (d.get('k'), value['k'], kwargs['k'])."""
    import re

    out = set()
    for s in SOURCES:
        out.update(re.findall(r"\.get\('((?:[^'\\]|\\.)*)'", s))
        out.update(re.findall(r"\[\'((?:[^'\\]|\\.)*)\'\]", s))
    return sorted(out)
