"""Names available to every generated harness module (and to schema preludes)."""
import collections
import dataclasses
import datetime
import decimal
import enum
import fractions
import ipaddress
import pathlib
import re
import sys
import types
import typing
import uuid
import zoneinfo
from collections import ChainMap, Counter, OrderedDict, defaultdict, deque
from dataclasses import InitVar, dataclass, field
from datetime import date, time, timedelta, timezone
from datetime import datetime as dt_datetime
from decimal import Decimal
from enum import Enum, Flag, IntEnum, IntFlag
from fractions import Fraction
from ipaddress import (IPv4Address, IPv4Interface, IPv4Network, IPv6Address,
                       IPv6Interface, IPv6Network)
from math import isfinite
from pathlib import Path, PurePosixPath, PurePath
from types import MappingProxyType
from typing import (AbstractSet, Any, ClassVar, DefaultDict, Deque, Dict, Final,
                    FrozenSet, Generic, List, Literal, Mapping, MutableMapping,
                    NamedTuple, NewType, Optional, Pattern, Sequence, Set, Tuple,
                    TypeVar, Union)
from uuid import UUID
from zoneinfo import ZoneInfo

from typing_extensions import (Annotated, LiteralString, NotRequired, Required, Self,
                               TypedDict, Unpack)

from vf import hlib

hlib.install_exec_shim()

import mashumaro  # noqa: E402
from mashumaro import DataClassDictMixin, field_options, pass_through  # noqa: E402
from mashumaro.codecs.basic import BasicDecoder, BasicEncoder  # noqa: E402
from mashumaro.config import (ADD_DIALECT_SUPPORT, ADD_SERIALIZATION_CONTEXT,  # noqa: E402
                              TO_DICT_ADD_BY_ALIAS_FLAG, TO_DICT_ADD_OMIT_NONE_FLAG,
                              BaseConfig)
from mashumaro.dialect import Dialect  # noqa: E402
from mashumaro.exceptions import (ExtraKeysError, InvalidFieldValue,  # noqa: E402
                                  MissingDiscriminatorError, MissingField,
                                  SuitableVariantNotFoundError)
from mashumaro.types import (Alias, Discriminator, SerializableType,  # noqa: E402
                             SerializationStrategy)

from vf.hlib import call, cf_guard, fail, notrace, pick  # noqa: E402
from vf.symval import Bounds, make_plan  # noqa: E402

datetime_cls = dt_datetime
