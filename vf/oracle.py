"""Reference semantics, written from README.md.  Never imports mashumaro.core.meta.
ref_encode / ref_decode / conforms interpret the type hints recursively and call the same
CPython leaf functions the documentation names."""
import base64
import collections
import dataclasses
import datetime
import enum
import re
import types
import typing

from . import tinfo

NoneType = type(None)
MISSING = dataclasses.MISSING


class Opts:
    """Encoding options that are part of the documented behaviour of a dialect."""

    def __init__(self, native=(), omit_none=False, namedtuple_as_dict=False, by_alias=False, none_fallback=False):
        # none_fallback: NOT reference behaviour -- a model of one known defect (a null union member swallowing
        # unmatched input), used only to classify a counterexample for known_findings.json
        self.none_fallback = none_fallback
        self.native = tuple(native)  # types left unconverted (format dialects)
        self.omit_none = omit_none
        self.namedtuple_as_dict = namedtuple_as_dict
        self.by_alias = by_alias


PLAIN = Opts()
NONE_FALLBACK = Opts(none_fallback=True)


class RefError(Exception):
    """The documented failure of a dataclass decode."""

    def __init__(self, kind, field_name=None, field_value=None, holder=None, extra=None):
        super().__init__(kind, field_name)
        self.kind = kind
        self.field_name = field_name
        self.field_value = field_value
        self.holder = holder
        self.extra = extra


class LeafError(Exception):
    """Any failure below a field (wrapped into 'invalid' by the enclosing dataclass)."""


# ---------------------------------------------------------------- dataclass config, read independently
def cfg(cls, name, default):
    c = getattr(cls, "Config", None)
    if c is None:
        return default
    v = getattr(c, name, default)
    if type(v).__name__ == "Sentinel":
        return default
    return v


def field_alias(cls, fname, ftype, f):
    a = f.metadata.get("alias") if f is not None else None
    if a is None:
        t = ftype
        if typing.get_origin(t) is typing.Annotated or getattr(typing.get_origin(t), "__name__", "") == "Annotated":
            for ann in typing.get_args(t)[1:]:
                if type(ann).__name__ == "Alias":
                    a = ann.name
    if a is None:
        a = (cfg(cls, "aliases", {}) or {}).get(fname)
    return a


def nullable(ftype, f, tv=None):
    ti = tinfo.info(ftype, tv)
    if ti.kind in ("any", "none", "optional"):
        return True
    if f is not None and f.default is None:
        return True
    return False


# ---------------------------------------------------------------- encode
def ref_encode(t, v, o=PLAIN, tvmap=None):
    ti = tinfo.info(t, tvmap)
    k = ti.kind
    if isinstance(ti.type, type) and ti.type in o.native and k not in ("seq", "map"):
        return v
    if k in ("any", "int", "float", "bool", "str"):
        return v
    if k == "none":
        return v
    if k in ("bytes", "bytearray"):
        return base64.encodebytes(v).decode()
    if k in ("datetime", "date", "time"):
        return v.isoformat()
    if k == "timedelta":
        return v.total_seconds()
    if k == "timezone":
        return tzname(v)
    if k in ("zoneinfo", "uuid", "decimal", "fraction", "ip", "path"):
        return str(v)
    if k == "pattern":
        return v.pattern
    if k == "enum":
        return v.value
    if k == "stype":
        ann = tinfo.stype_annotations(ti.type)
        if ann:
            # use_annotations=True: what _serialize returns is rendered according to its return annotation
            return ref_encode(ann[0], v._serialize(), o, tvmap)
        return v._serialize()
    if k == "literal":
        for lv in ti.args:
            if type(lv) is type(v) and lv == v or (isinstance(lv, enum.Enum) and lv is v):
                if isinstance(lv, enum.Enum):
                    return lv.value
                if isinstance(lv, bytes):
                    return base64.encodebytes(lv).decode()
                return v
        for lv in ti.args:
            if lv == v:
                return v
        raise LeafError("literal")
    if k == "optional":
        if v is None:
            return None
        return ref_encode(ti.args[0], v, o, tvmap)
    if k == "union":
        for a in ti.args:
            if conforms(a, v, tvmap, shallow=True):
                return ref_encode(a, v, o, tvmap)
        raise LeafError("union")
    if k == "seq" or k == "tuple_var":
        return [ref_encode(ti.args[0], x, o, tvmap) for x in v]
    if k == "tuple_fixed":
        return [ref_encode(a, x, o, tvmap) for a, x in zip(flatten_tuple_args(ti.args, len(v)), v)]
    if k == "namedtuple":
        tvmap = tinfo.scope(ti, tvmap)
        fs = tinfo.nt_fields(ti.type)
        if o.namedtuple_as_dict:
            return {n: ref_encode(ft, getattr(v, n), o, tvmap) for n, ft in fs}
        return [ref_encode(ft, getattr(v, n), o, tvmap) for n, ft in fs]
    if k == "typeddict":
        tvmap = tinfo.scope(ti, tvmap)
        hints, req, opt = tinfo.td_keys(ti.type)
        out = {}
        for kk in req:
            out[kk] = ref_encode(hints[kk], v[kk], o, tvmap)
        for kk in opt:
            if kk in v:
                out[kk] = ref_encode(hints[kk], v[kk], o, tvmap)
        return out
    if k == "map":
        return {ref_encode(ti.args[0], kk, o, tvmap): ref_encode(ti.args[1], vv, o, tvmap) for kk, vv in v.items()}
    if k == "chainmap":
        return [{ref_encode(ti.args[0], kk, o, tvmap): ref_encode(ti.args[1], vv, o, tvmap) for kk, vv in m.items()}
                for m in v.maps]
    if k == "dataclass":
        tv = dict(tvmap or {})
        tv.update(ti.extra or {})
        out = {}
        for name, ft, f in tinfo.dc_fields(type(v) if dataclasses.is_dataclass(v) else ti.type):
            if f.metadata.get("serialize") == "omit":
                continue
            x = getattr(v, name)
            if x is None:
                if o.omit_none:
                    continue
                out[name] = None
            else:
                out[name] = ref_encode(ft, x, o, tv)
        return out
    raise TypeError("ref_encode: %r" % (t,))


def tzname(tzv):
    off = tzv.utcoffset(None)
    total = off.days * 86400 + off.seconds
    if total == 0 and off.microseconds == 0:
        return "UTC"
    sign = "+" if total >= 0 else "-"
    total = abs(total)
    h, rem = divmod(total, 3600)
    m, s = divmod(rem, 60)
    out = "UTC%s%02d:%02d" % (sign, h, m)
    if s or off.microseconds:
        out += ":%02d" % s
    return out


def flatten_tuple_args(args, n):
    """Per-position element types of a fixed tuple with at most one Unpack[Tuple[...]] for a value of length n."""
    before, star, after = [], None, []
    for a in args:
        o = typing.get_origin(a)
        if o is typing.Unpack or getattr(o, "__name__", "") == "Unpack":
            star = typing.get_args(a)[0]
        elif star is None:
            before.append(a)
        else:
            after.append(a)
    if star is None:
        return list(args)
    sti = tinfo.info(star)
    mid_n = n - len(before) - len(after)
    if sti.kind == "tuple_var":
        mid = [sti.args[0]] * max(mid_n, 0)
    else:
        mid = flatten_tuple_args(sti.args, mid_n)
    return before + mid + after


# ---------------------------------------------------------------- decode
_TZ = re.compile(r"UTC(?:([+-])([0-2][0-9]):([0-5][0-9]))?\Z")


def parse_tz(s):
    m = _TZ.match(s)
    if not m:
        raise LeafError("timezone")
    if m.group(1) is None:
        return datetime.timezone.utc
    mins = int(m.group(2)) * 60 + int(m.group(3))
    if m.group(1) == "-":
        mins = -mins
    return datetime.timezone(datetime.timedelta(minutes=mins))


SCALARS = (int, float, bool, str, NoneType)


def ref_decode(t, d, tvmap=None, o=PLAIN):
    """Returns the decoded value; raises RefError (documented dataclass failures, only from a dataclass
    root) or any other Exception for a failure below."""
    ti = tinfo.info(t, tvmap)
    k = ti.kind
    if k == "any":
        return d
    if k == "none":
        return None
    if k == "int":
        return int(d)
    if k == "float":
        return float(d)
    if k == "bool":
        return bool(d)
    if k == "str":
        return ti.type(d) if ti.type is not str else str(d)
    if k == "bytes":
        return base64.decodebytes(d.encode())
    if k == "bytearray":
        return bytearray(base64.decodebytes(d.encode()))
    if k in ("datetime", "date", "time"):
        return ti.type.fromisoformat(d)
    if k == "timedelta":
        return datetime.timedelta(seconds=d)
    if k == "timezone":
        return parse_tz(d)
    if k in ("zoneinfo", "uuid", "decimal", "fraction", "ip", "path"):
        return ti.type(d)
    if k == "pattern":
        return re.compile(d)
    if k == "enum":
        return ti.type(d)
    if k == "stype":
        ann = tinfo.stype_annotations(ti.type)
        if ann:
            return ti.type._deserialize(ref_decode(ann[1], d, tvmap, o))
        return ti.type._deserialize(d)
    if k == "literal":
        for lv in ti.args:
            if isinstance(lv, enum.Enum):
                if d == lv.value:
                    return lv
            elif isinstance(lv, bytes):
                try:
                    if base64.decodebytes(d.encode()) == lv:
                        return lv
                except Exception:
                    pass
            elif d == lv:
                return lv
        raise LeafError("literal")
    if k == "optional":
        if d is None:
            return None
        return ref_decode(ti.args[0], d, tvmap, o)
    if k == "union":
        return ref_union_decode(ti, d, tvmap, o)
    if k == "seq":
        return ti.type([ref_decode(ti.args[0], x, tvmap, o) for x in d])
    if k == "tuple_var":
        return tuple([ref_decode(ti.args[0], x, tvmap, o) for x in d])
    if k == "tuple_fixed":
        return decode_fixed_tuple(ti.args, d, tvmap, o)
    if k == "namedtuple":
        tvmap = tinfo.scope(ti, tvmap)
        fs = tinfo.nt_fields(ti.type)
        defaults = getattr(ti.type, "_field_defaults", {})
        vals = []
        if o.namedtuple_as_dict:
            for n, ft in fs:
                try:
                    x = d[n]
                except IndexError:
                    break
                vals.append(ref_decode(ft, x, tvmap, o))
        else:
            for i, (n, ft) in enumerate(fs):
                if defaults:
                    try:
                        x = d[i]
                    except IndexError:
                        break
                else:
                    x = d[i]
                vals.append(ref_decode(ft, x, tvmap, o))
        return ti.type(*vals)
    if k == "typeddict":
        tvmap = tinfo.scope(ti, tvmap)
        hints, req, opt = tinfo.td_keys(ti.type)
        out = {}
        for kk in req:
            out[kk] = ref_decode(hints[kk], d[kk], tvmap, o)
        for kk in opt:
            if kk in d:
                out[kk] = ref_decode(hints[kk], d[kk], tvmap, o)
        return out
    if k == "map":
        body = {ref_decode(ti.args[0], kk, tvmap, o): ref_decode(ti.args[1], vv, tvmap, o) for kk, vv in d.items()}
        if ti.type is collections.defaultdict:
            vi = tinfo.info(ti.args[1], tvmap)
            return collections.defaultdict(vi.type if isinstance(vi.type, type) else None, body)
        return ti.type(body)
    if k == "chainmap":
        return collections.ChainMap(*[
            {ref_decode(ti.args[0], kk, tvmap, o): ref_decode(ti.args[1], vv, tvmap, o) for kk, vv in m.items()}
            for m in d])
    if k == "dataclass":
        return decode_dataclass(ti, d, tvmap, o)
    raise TypeError("ref_decode: %r" % (t,))


def decode_fixed_tuple(args, d, tvmap, o):
    before, star, after = [], None, []
    for a in args:
        og = typing.get_origin(a)
        if og is typing.Unpack or getattr(og, "__name__", "") == "Unpack":
            star = typing.get_args(a)[0]
        elif star is None:
            before.append(a)
        else:
            after.append(a)
    out = []
    if star is None:
        for i, a in enumerate(args):
            out.append(ref_decode(a, d[i], tvmap, o))
        return tuple(out)
    if len(d) < len(before) + len(after):
        # every fixed item needs an input item of its own (no item may serve a leading and a trailing position at once)
        raise IndexError("tuple input shorter than its fixed items")
    for i, a in enumerate(before):
        out.append(ref_decode(a, d[i], tvmap, o))
    end = len(d) - len(after) if after else len(d)
    mid = d[len(before):(-len(after) if after else None)]
    out.extend(ref_decode(star, mid, tvmap, o))
    for j, a in enumerate(after):
        out.append(ref_decode(a, d[j - len(after)], tvmap, o))
    return tuple(out)


def ref_union_decode(ti, d, tvmap=None, o=PLAIN):
    members = [(a, tinfo.info(a, tvmap)) for a in ti.args]
    scalar_members = [(a, mi) for a, mi in members if mi.kind in ("int", "float", "bool", "str", "none")
                      and mi.type in SCALARS]
    # 1+2. members in declaration order: a basic scalar member matches by exact type only and returns the
    #      input unchanged (no cross-coercion between int, float, bool, str and null); any other member is
    #      tried and the first that accepts wins
    for a, mi in members:
        if (a, mi) in scalar_members:
            if type(d) is mi.type:
                return d
            continue
        try:
            return ref_decode(a, d, tvmap, o)
        except Exception as e:
            _cf(e)
            continue
    # 3. last resort: coercing constructors of the scalar members, declaration order; a null member
    #    matches only null (and null was handled in step 1)
    for a, mi in scalar_members:
        if mi.kind == "none":
            if o.none_fallback:
                return None
            continue
        try:
            return ref_decode(a, d, tvmap, o)
        except Exception as e:
            _cf(e)
            continue
    raise LeafError("union: no member accepts")


def _cf(e):
    from .hlib import cf_guard

    cf_guard(e)


def decode_dataclass(ti, d, tvmap, o):
    cls = ti.type
    tv = dict(tvmap or {})
    tv.update(ti.extra or {})
    if not isinstance(d, dict):
        # documented: ValueError for a non-mapping argument
        if not hasattr(d, "get"):
            raise RefError("not-a-dict", holder=cls)
    fields = [(n, ft, f) for n, ft, f in tinfo.dc_fields(cls) if f.init]
    allow_name = cfg(cls, "allow_deserialization_not_by_alias", False)
    if cfg(cls, "forbid_extra_keys", False):  # also for a class without constructor parameters: no key is expected
        allowed = set()
        for n, ft, f in fields:
            a = field_alias(cls, n, ft, f)
            allowed.add(a or n)
            if allow_name:
                allowed.add(n)
        for k in cls.__mro__:
            disc = getattr(k.__dict__.get("Config"), "discriminator", None)
            if disc is not None and getattr(disc, "field", None):
                allowed.add(disc.field)  # a class-level discriminator field is accepted
                break
        extra = set(d.keys()) - allowed
        if extra:
            raise RefError("extra", holder=cls, extra=extra)
    kwargs = {}
    for n, ft, f in fields:
        a = field_alias(cls, n, ft, f)
        key = a or n
        val = d.get(key, MISSING)
        if val is MISSING and allow_name and a:
            val = d.get(n, MISSING)
        has_default = f.default is not MISSING or f.default_factory is not MISSING
        if val is MISSING:
            if not has_default:
                raise RefError("missing", field_name=n, holder=cls)
            continue
        if val is None and nullable(ft, f, tv):
            kwargs[n] = None
            continue
        if type(f.metadata.get("deserialize")).__name__ == "_PassThrough":
            kwargs[n] = val  # documented field option: the value is taken over unchanged
            continue
        des = f.metadata.get("deserialize")
        if des in ("as_dict", "as_list") and tinfo.info(ft, tv).kind == "namedtuple":
            # documented field option: the named tuple engine of this field
            import copy as _copy

            o2 = _copy.copy(o)
            o2.namedtuple_as_dict = des == "as_dict"
            try:
                kwargs[n] = ref_decode(ft, val, tv, o2)
            except RefError as e:
                raise RefError("invalid", field_name=n, field_value=val, holder=cls) from e
            except Exception as e:
                _cf(e)
                raise RefError("invalid", field_name=n, field_value=val, holder=cls) from e
            continue
        if callable(des):
            # documented field option: the callable replaces the type's own deserialization
            try:
                kwargs[n] = des(val)
            except Exception as e:
                _cf(e)
                raise RefError("invalid", field_name=n, field_value=val, holder=cls) from e
            continue
        try:
            kwargs[n] = ref_decode(ft, val, tv, o)
        except RefError as e:
            raise RefError("invalid", field_name=n, field_value=val, holder=cls) from e
        except Exception as e:
            _cf(e)
            raise RefError("invalid", field_name=n, field_value=val, holder=cls) from e
    return cls(**kwargs)


# ---------------------------------------------------------------- conformance
def conforms(t, r, tvmap=None, shallow=False):
    """Exact class at every position (Any leaves excepted)."""
    ti = tinfo.info(t, tvmap)
    k = ti.kind
    if k == "any":
        return True
    if k == "none":
        return r is None
    if k in ("int", "float", "bool"):
        return type(r) is ti.type
    if k == "str":
        return type(r) is ti.type
    if k in ("bytes", "bytearray", "datetime", "date", "time", "timedelta", "timezone", "uuid", "decimal",
             "fraction", "ip", "zoneinfo", "stype"):
        return type(r) is ti.type
    if k == "path":
        return isinstance(r, ti.type) if ti.type.__name__.startswith("Pure") is False or True else False
    if k == "pattern":
        return isinstance(r, re.Pattern)
    if k == "enum":
        return type(r) is ti.type
    if k == "literal":
        for lv in ti.args:
            if lv is r or (type(lv) is type(r) and lv == r):
                return True
        return False
    if k == "optional":
        return r is None or conforms(ti.args[0], r, tvmap, shallow)
    if k == "union":
        for a in ti.args:
            if conforms(a, r, tvmap, shallow):
                return True
        return False
    if k == "seq":
        if type(r) is not ti.type:
            return False
        if shallow:
            return True
        for x in r:
            if not conforms(ti.args[0], x, tvmap):
                return False
        return True
    if k == "tuple_var":
        if type(r) is not tuple:
            return False
        if shallow:
            return True
        for x in r:
            if not conforms(ti.args[0], x, tvmap):
                return False
        return True
    if k == "tuple_fixed":
        if type(r) is not tuple:
            return False
        if shallow:
            return True
        try:
            ets = flatten_tuple_args(ti.args, len(r))
        except Exception:
            return False
        if len(ets) != len(r):
            return False
        for a, x in zip(ets, r):
            if not conforms(a, x, tvmap):
                return False
        return True
    if k == "namedtuple":
        tvmap = tinfo.scope(ti, tvmap)
        if type(r) is not ti.type:
            return False
        if shallow:
            return True
        for n, ft in tinfo.nt_fields(ti.type):
            if not conforms(ft, getattr(r, n), tvmap):
                return False
        return True
    if k == "typeddict":
        tvmap = tinfo.scope(ti, tvmap)
        if type(r) is not dict:
            return False
        if shallow:
            return True
        hints, req, opt = tinfo.td_keys(ti.type)
        for kk in req:
            if kk not in r or not conforms(hints[kk], r[kk], tvmap):
                return False
        for kk in opt:
            if kk in r and not conforms(hints[kk], r[kk], tvmap):
                return False
        for kk in r:
            if kk not in hints:
                return False
        return True
    if k == "map":
        if type(r) is not ti.type:
            return False
        if shallow:
            return True
        for kk, vv in r.items():
            if not conforms(ti.args[0], kk, tvmap) or not conforms(ti.args[1], vv, tvmap):
                return False
        return True
    if k == "chainmap":
        if type(r) is not collections.ChainMap:
            return False
        if shallow:
            return True
        for m in r.maps:
            if type(m) is not dict:
                return False
            for kk, vv in m.items():
                if not conforms(ti.args[0], kk, tvmap) or not conforms(ti.args[1], vv, tvmap):
                    return False
        return True
    if k == "dataclass":
        if type(r) is not ti.type:
            return False
        if shallow:
            return True
        tv = dict(tvmap or {})
        tv.update(ti.extra or {})
        for n, ft, f in tinfo.dc_fields(ti.type):
            if not f.init:
                continue
            x = getattr(r, n)
            if x is None and nullable(ft, f, tv):
                continue
            if not conforms(ft, x, tv):
                return False
        return True
    raise TypeError("conforms: %r" % (t,))


# ---------------------------------------------------------------- exact comparison of basic forms
def exact_eq(a, b):
    """Order- and type-exact equality of two basic-form structures."""
    if type(a) is not type(b):
        return False
    if type(a) is dict:
        if len(a) != len(b):
            return False
        for (ka, va), (kb, vb) in zip(a.items(), b.items()):
            if not exact_eq(ka, kb) or not exact_eq(va, vb):
                return False
        return True
    if type(a) in (list, tuple):
        if len(a) != len(b):
            return False
        for x, y in zip(a, b):
            if not exact_eq(x, y):
                return False
        return True
    return a == b


BASIC = (str, int, float, bool, NoneType)


def basic_only(x):
    """json.dumps' documented acceptance condition (exact basic types, scalar keys)."""
    if type(x) in BASIC:
        return True
    if type(x) is list:
        for y in x:
            if not basic_only(y):
                return False
        return True
    if type(x) is dict:
        for k, v in x.items():
            if type(k) not in BASIC:
                return False
            if not basic_only(v):
                return False
        return True
    return False
