# CrossHair --extra_plugin: count execution paths and SMT queries, print them on stderr.
# (The audit wall blocks file writes from the analysed process; module globals are gone
# at interpreter exit, hence closures.)
def _install():
    import atexit
    import sys
    import time

    stats = {"paths": 0, "smt_checks": 0, "smt_time": 0.0}
    try:
        import z3
        from crosshair import statespace

        orig_init = statespace.StateSpace.__init__

        def init(self, *a, **kw):
            stats["paths"] += 1
            return orig_init(self, *a, **kw)

        statespace.StateSpace.__init__ = init

        orig_check = z3.Solver.check

        def check(self, *a, **kw):
            t0 = time.perf_counter()
            try:
                return orig_check(self, *a, **kw)
            finally:
                stats["smt_checks"] += 1
                stats["smt_time"] += time.perf_counter() - t0

        z3.Solver.check = check
    except Exception as e:  # pragma: no cover
        stats["error"] = repr(e)

    def report(stats=stats, sys=sys):
        try:
            sys.stderr.write(
                "VFSTATS paths=%d smt_checks=%d smt_time=%.4f\n"
                % (stats["paths"], stats["smt_checks"], stats["smt_time"])
            )
            sys.stderr.flush()
        except Exception:
            pass

    atexit.register(report)


_install()
