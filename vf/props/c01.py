"""C01 -- basic-form round trip is the identity (harness side)."""
import dataclasses

from mashumaro import DataClassDictMixin
from mashumaro.codecs.basic import BasicDecoder, BasicEncoder

from vf.hlib import call, fail
from vf.props.common import region, same_classes


class S_:
    pass


def setup(T, NODE, CTX, variant, config=None, prefix="C01"):
    S = S_()
    S.prefix = prefix
    S.T, S.node, S.ctx, S.variant = T, NODE, CTX, variant
    if variant == "codec":
        enc = BasicEncoder(T)
        dec = BasicDecoder(T)
        S.encode = enc.encode
        S.decode = dec.decode
        S.wrap = lambda v: v
        S.unwrap = lambda v: v
    else:
        ns = {}
        if config:
            ns["Config"] = type("Config", (), dict(config))
        W = dataclasses.make_dataclass("W", [("x", T)], bases=(DataClassDictMixin,), namespace=ns)
        S.W = W
        S.encode = lambda w: w.to_dict()
        S.decode = W.from_dict
        S.wrap = lambda v: W(x=v)
        S.unwrap = lambda w: w.x
    return S


def main(S, env):
    v = S.wrap(S.node.make(env))
    st, d = call(S.encode, v)
    if st == "exc":
        return fail(S.prefix + "/encode-raised:%s" % type(d).__name__, value=v, exc=d)
    st, v2 = call(S.decode, d)
    if st == "exc":
        return fail(S.prefix + "/decode-raised:%s" % type(v2).__name__, value=v, encoded=d, exc=v2)
    if not (v2 == v):
        return fail(classify_neq(S, v, v2), value=v, encoded=d, decoded=v2)
    if not same_classes(v, v2):
        return fail(S.prefix + "/class-mismatch", value=v, encoded=d, decoded=v2)
    return True


def classify_neq(S, v, v2):
    import datetime

    def find(a, b):
        if isinstance(a, datetime.timezone) and isinstance(b, datetime.timezone):
            oa = a.utcoffset(None)
            ob = b.utcoffset(None)
            if oa == -ob and datetime.timedelta(minutes=-60) < oa < datetime.timedelta(0):
                return "tz-negative-subhour"
            return "tz"
        if isinstance(a, (list, tuple)) and isinstance(b, (list, tuple)) and len(a) == len(b):
            for x, y in zip(a, b):
                if not (x == y):
                    return find(x, y)
        if isinstance(a, dict) and isinstance(b, dict):
            for k in a:
                if k in b and not (a[k] == b[k]):
                    return find(a[k], b[k])
        if dataclasses.is_dataclass(a) and type(a) is type(b):
            for f in dataclasses.fields(a):
                x, y = getattr(a, f.name), getattr(b, f.name)
                if not (x == y):
                    return find(x, y)
        return type(a).__name__

    return S.prefix + "/roundtrip-neq:%s" % find(v, v2)


def twin(S, env):
    return not (region(S.ctx, env) and main(S, env))
