"""C02 -- serialization emits exactly the documented basic form (harness side)."""
import dataclasses
import datetime
import json
import uuid

from mashumaro import DataClassDictMixin
from mashumaro.codecs.basic import BasicEncoder

from vf import oracle
from vf.hlib import call, fail, notrace
from vf.props.common import region


class S_:
    pass


def ident(data, **kw):
    return data


NATIVE = {
    "orjson": oracle.Opts(native=(datetime.datetime, datetime.date, datetime.time, uuid.UUID)),
    "msgpack": oracle.Opts(native=(bytes, bytearray)),
    "toml": oracle.Opts(native=(datetime.datetime, datetime.date, datetime.time), omit_none=True),
}


def setup(T, NODE, CTX, variant, has_any=False, prefix="C02"):
    S = S_()
    S.T, S.node, S.ctx, S.variant, S.has_any = T, NODE, CTX, variant, has_any
    S.opts = NATIVE.get(variant, oracle.PLAIN)
    S.prefix = prefix
    if variant == "codec":
        S.encode = BasicEncoder(T).encode
        S.wrap = lambda v: v
        S.RT = T
    else:
        if variant == "field":
            base = DataClassDictMixin
            meth = lambda w: w.to_dict()
        elif variant == "orjson":
            from mashumaro.mixins.orjson import DataClassORJSONMixin as base
            meth = lambda w: w.to_jsonb(encoder=ident)
        elif variant == "msgpack":
            from mashumaro.mixins.msgpack import DataClassMessagePackMixin as base
            meth = lambda w: w.to_msgpack(encoder=ident)
        elif variant == "toml":
            from mashumaro.mixins.toml import DataClassTOMLMixin as base
            meth = lambda w: w.to_toml(encoder=ident)
        if isinstance(T, type) and issubclass(T, base) and variant != "field":
            # the schema class itself carries the format mixin (e.g. a Self-referencing format class): no wrapper
            S.W = T
            S.encode = meth
            S.wrap = lambda v: v
            S.RT = T
            return S
        W = dataclasses.make_dataclass("W", [("x", T)], bases=(base,))
        S.W = W
        S.encode = meth
        S.wrap = lambda v: W(x=v)
        S.RT = W
    return S


def main(S, env):
    v = S.wrap(S.node.make(env))
    st, d = call(S.encode, v)
    if st == "exc":
        if S.prefix == "C17":
            from vf.props.c03 import own_name_error
            bad = own_name_error(d)
            if bad:
                return fail("C17/unresolved-name-in-generated-code:%s" % bad[0], value=v, error=bad[1])
        return fail(S.prefix + "/encode-raised:%s" % type(d).__name__, value=v, exc=d)
    st, ref = call(oracle.ref_encode, S.RT, v, S.opts)
    if st == "exc":
        raise AssertionError("oracle failed: %r" % (ref,))
    if not oracle.exact_eq(d, ref):
        return fail(S.prefix + "/form-mismatch:%s" % first_diff(d, ref), value=v, real=d, reference=ref)
    if S.variant in ("codec", "field") and not S.has_any:
        if not oracle.basic_only(d):
            return fail(S.prefix + "/not-basic", value=v, real=d)
        if not tracing_now():
            # stub validation: basic_only is json.dumps' acceptance condition
            json.dumps(d)
    return True


def tracing_now():
    from vf.hlib import tracing

    return tracing()


def first_diff(a, b):
    if type(a) is not type(b):
        return "type:%s!=%s" % (type(a).__name__, type(b).__name__)
    if type(a) is dict:
        ka, kb = list(a), list(b)
        if ka != kb:
            if sorted(map(repr, ka)) == sorted(map(repr, kb)):
                return "key-order"
            return "keys"
        for k in ka:
            if not oracle.exact_eq(a[k], b[k]):
                return first_diff(a[k], b[k])
    if type(a) in (list, tuple):
        if len(a) != len(b):
            return "length"
        for x, y in zip(a, b):
            if not oracle.exact_eq(x, y):
                return first_diff(x, y)
    return "value:%s" % type(a).__name__


def twin(S, env):
    return not (region(S.ctx, env) and main(S, env))
