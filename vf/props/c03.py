"""C03 -- deserialization follows the documented coercions and is well typed (harness side).
Input: an arbitrary JSON-like value (tag selector, symbolic scalars, pooled strings, bounded containers) at the
root of a codec / at the field of a wrapper dataclass."""
import dataclasses

from mashumaro import DataClassDictMixin
from mashumaro.codecs.basic import BasicDecoder

from vf import arb, oracle, symval
from vf.hlib import call, fail
from vf.props.common import deep_eq, key_universe, known_defect_suffix, leaf_strings


class S_:
    pass


def make_input_plan(T, variant, depth=1, prefix="C03"):
    ctx = symval.Ctx()
    strs = leaf_strings(T)
    node = arb.Arb(ctx, strs, key_universe(T, limit=2), child_extra=strs[:4])
    return ctx, node


def setup(T, NODE, CTX, variant, depth=1, prefix="C03", default=dataclasses.MISSING, default_factory=dataclasses.MISSING):
    S = S_()
    S.T, S.node, S.ctx, S.variant = T, NODE, CTX, variant
    S.prefix = prefix
    from vf import tinfo
    S.list_like = tinfo.info(T).kind in ("seq", "tuple_var", "tuple_fixed", "namedtuple", "chainmap")
    S.struct = needs_nested(T)
    if variant == "codec":
        S.decode = BasicDecoder(T).decode
        S.RT = T
        S.wrap = lambda d: d
    else:
        if variant == "field_default":
            # a field with a non-None default: an explicit null must still arrive as None, not as the default
            W = dataclasses.make_dataclass("W", [("x", T, dataclasses.field(default=default, default_factory=default_factory))],
                                           bases=(DataClassDictMixin,))
        else:
            W = dataclasses.make_dataclass("W", [("x", T)], bases=(DataClassDictMixin,))
        S.W = W
        S.decode = W.from_dict
        S.RT = W
        S.wrap = lambda d: {"x": d}
    return S


def needs_nested(T):
    """a dataclass root with a required field whose type is itself a dataclass / NamedTuple / TypedDict (or a generic
    parameter bound to one): depth-1 inputs cannot satisfy it"""
    from vf import tinfo

    try:
        ti = tinfo.info(T)
        if ti.kind != "dataclass":
            return False
        for n, ft, f in tinfo.dc_fields(ti.type):
            if f.default is not dataclasses.MISSING or f.default_factory is not dataclasses.MISSING:
                continue
            try:
                k = tinfo.info(ft, ti.extra).kind
            except Exception:
                return True
            if k in ("dataclass", "namedtuple", "typeddict", "enum"):
                return True
    except Exception:
        return False
    return False


def main(S, env):
    return judge(S, S.wrap(S.node.make(env)))


def judge(S, d):
    st_r, r = call(S.decode, d)
    st_o, o = call(oracle.ref_decode, S.RT, d)
    if st_r == "exc" and S.prefix == "C17":
        bad = own_name_error(r)
        if bad:
            return fail("C17/unresolved-name-in-generated-code:%s" % bad[0], input=d, error=bad[1])
    if st_r == "ok":
        if st_o != "ok":
            k = known_defect_suffix(S.RT, d, r)
            return fail(S.prefix + "/" + (k or "accepted-but-reference-rejects"), input=d, result=r, ref_exc=o)
        if not deep_eq(r, o):
            k = known_defect_suffix(S.RT, d, r)
            return fail(S.prefix + "/" + (k or "result-differs"), input=d, result=r, reference=o)
        if not oracle.conforms(S.RT, r):
            return fail(S.prefix + "/not-conforming", input=d, result=r)
    elif st_o == "ok":
        return fail(S.prefix + "/rejected-but-reference-accepts:%s" % type(r).__name__, input=d, exc=r, reference=o)
    return True


def twin(S, env):
    """Witness: a container-tagged input was accepted... or, for scalar schemas, any accepted input."""
    if S.list_like:
        # witness: a full-length list input went through the decoder and the comparison
        return not (env[S.node.tag] == 1 and env[S.node.n] == len(S.node.items) and main(S, env))
    d = S.wrap(S.node.make(env))
    st_r, r = call(S.decode, d)
    if st_r == "ok":
        return not main(S, env)
    if S.struct and env[S.node.tag] == 2 and all(env[f] for f in S.node.flags):
        # structured schemas (a nested dataclass / NamedTuple / TypedDict is required): no input of depth 1 can be accepted, so
        # the witness is a dict-tagged input with every candidate key present that went through both decoders and the
        # comparison of their (rejecting) outcomes; accepted deep inputs are the subject of the *_deep harnesses
        return not main(S, env)
    return True


def own_name_error(exc):
    """NameError, or an AttributeError of the library's own making (a dotted name that does not resolve: "module 'm' has no
    attribute 'K'" / "type object 'K' has no attribute '__mashumaro...'"), anywhere in the exception chain"""
    seen = set()
    stack = [exc]
    while stack:
        e = stack.pop()
        if e is None or id(e) in seen:
            continue
        seen.add(id(e))
        if isinstance(e, NameError) and not isinstance(e, UnboundLocalError):
            return ("NameError", str(e)[:200])
        if isinstance(e, AttributeError):
            m = str(e)
            if m.startswith("module ") or "__mashumaro" in m or (m.startswith("type object") and "has no attribute" in m):
                return ("AttributeError", m[:200])
        stack.append(e.__cause__)
        stack.append(e.__context__)
    return None
