"""C03, deep valid inputs (harness side).  The arbitrary JSON-like inputs of vf/props/c03.py reach depth 1 below the position;
inputs that are valid several levels deep are produced here from a symbolic conforming value v by the REFERENCE encoder
(vf/oracle.py, not the implementation's packer): d = REF_ENCODE(T, v).  The implementation's decoder must accept d, return
what REF_DECODE returns, and the result must conform class-exactly."""
from vf import oracle
from vf.hlib import call, fail
from vf.props import c03
from vf.props.common import region


def setup(T, NODE, CTX, variant, prefix="C03"):
    S = c03.setup(T, NODE, CTX, variant, prefix=prefix)
    S.T0 = T
    return S


def main(S, env):
    v = S.node.make(env)
    st, d = call(oracle.ref_encode, S.T0, v)
    if st == "exc":
        return True  # the reference cannot express this value (outside its grammar): nothing to feed
    d = S.wrap(d)
    st_o, o = call(oracle.ref_decode, S.RT, d)
    if st_o != "ok":
        return True  # lossy representation the reference itself rejects on the way back (excluded by the statement)
    return c03.judge(S, d)


def twin(S, env):
    if not region(S.ctx, env):
        return True
    v = S.node.make(env)
    st, d = call(oracle.ref_encode, S.T0, v)
    if st == "exc":
        return True
    st_o, o = call(oracle.ref_decode, S.RT, S.wrap(d))
    return not (st_o == "ok" and main(S, env))
