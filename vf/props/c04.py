"""C04 -- format codecs are lossless and equal the format encoding of the basic form (harness side).
(a) for all values with the C transport replaced by its contract (identity); (b) wiring; (c) the real libraries on every
replayed model and on boundary values at import (stub validation, counted separately -- the C code itself is outside)."""
import dataclasses
import datetime
import importlib
import json
import typing
import uuid

from mashumaro import DataClassDictMixin
from mashumaro.codecs.basic import BasicEncoder

from vf import oracle, symval, tinfo
from vf.hlib import call, fail, notrace, pick, tracing
from vf.props.c13 import _Shim, canonical, ident
from vf.props.common import deep_eq, region, same_classes


class S_:
    pass


FORMATS = ["json", "orjson", "yaml", "msgpack", "toml"]


def mixin_of(fmt):
    mod = {"json": "mashumaro.mixins.json:DataClassJSONMixin", "orjson": "mashumaro.mixins.orjson:DataClassORJSONMixin",
           "yaml": "mashumaro.mixins.yaml:DataClassYAMLMixin", "msgpack": "mashumaro.mixins.msgpack:DataClassMessagePackMixin",
           "toml": "mashumaro.mixins.toml:DataClassTOMLMixin"}[fmt]
    m, c = mod.split(":")
    return getattr(importlib.import_module(m), c)


METHODS = {"json": ("to_json", "from_json"), "orjson": ("to_jsonb", "from_json"), "yaml": ("to_yaml", "from_yaml"),
           "msgpack": ("to_msgpack", "from_msgpack"), "toml": ("to_toml", "from_toml")}


def transport_image(doc, fmt):
    """what the real transport hands back for this document (documented behaviour of the format library)"""
    if fmt in ("orjson",):
        return canonical(doc, False)          # orjson renders date/UUID natively as text; loads() returns text
    if fmt in ("json", "yaml"):
        return doc
    if fmt == "msgpack":
        return doc                            # bin type round-trips as bytes
    if fmt == "toml":
        return doc                            # native date/time types both ways
    raise KeyError(fmt)


def codec_pair(fmt, T):
    if fmt == "json":
        from mashumaro.codecs.json import JSONDecoder, JSONEncoder
        return JSONEncoder(T, post_encoder_func=ident).encode, JSONDecoder(T, pre_decoder_func=ident).decode, \
            JSONEncoder(T).encode, JSONDecoder(T).decode
    if fmt == "yaml":
        from mashumaro.codecs.yaml import YAMLDecoder, YAMLEncoder
        return YAMLEncoder(T, post_encoder_func=ident).encode, YAMLDecoder(T, pre_decoder_func=ident).decode, \
            YAMLEncoder(T).encode, YAMLDecoder(T).decode
    mod = importlib.import_module("mashumaro.codecs." + fmt)
    if fmt == "orjson":
        real = (mod.ORJSONEncoder(T).encode, mod.ORJSONDecoder(T).decode)
        saved = mod.orjson
        mod.orjson = _Shim(dumps=ident, loads=ident)
        try:
            return (mod.ORJSONEncoder(T).encode, mod.ORJSONDecoder(T).decode) + real
        finally:
            mod.orjson = saved
    if fmt == "toml":
        real = (mod.TOMLEncoder(T).encode, mod.TOMLDecoder(T).decode)
        s1, s2 = mod.tomli_w, mod.tomllib
        mod.tomli_w, mod.tomllib = _Shim(dumps=ident), _Shim(loads=ident)
        try:
            return (mod.TOMLEncoder(T).encode, mod.TOMLDecoder(T).decode) + real
        finally:
            mod.tomli_w, mod.tomllib = s1, s2
    if fmt == "msgpack":
        return mod.MessagePackEncoder(T, post_encoder_func=ident).encode, mod.MessagePackDecoder(T, pre_decoder_func=ident).decode, \
            mod.MessagePackEncoder(T).encode, mod.MessagePackDecoder(T).decode
    raise KeyError(fmt)


def setup(T, NODE, CTX, variant, fmt="json"):
    S = S_()
    S.T, S.node, S.ctx, S.variant, S.fmt = T, NODE, CTX, variant, fmt
    if variant == "wiring":
        S.All = wiring_setup()
        return S
    ns = {}
    if variant == "mixin_lazy":
        from mashumaro.config import BaseConfig
        ns["Config"] = type("Config", (BaseConfig,), {"lazy_compilation": True})
    direct = isinstance(T, type) and issubclass(T, mixin_of(fmt)) and variant == "mixin"
    W = T if direct else dataclasses.make_dataclass("W", [("x", T)], bases=(mixin_of(fmt),), namespace=ns)
    S.W = W
    to_m, from_m = METHODS[fmt]
    if variant in ("mixin", "mixin_lazy"):
        S.wrap = (lambda v: v) if direct else (lambda v: W(x=v))
        S.enc = lambda w: getattr(w, to_m)(encoder=ident)
        S.dec = lambda d: getattr(W, from_m)(d, decoder=ident)
        S.real_enc = lambda w: getattr(w, to_m)()
        S.real_dec = lambda d: getattr(W, from_m)(d)
        S.RT = W
    else:
        PW = dataclasses.make_dataclass("PW", [("x", T)])   # plain dataclass through Encoder/Decoder objects
        S.wrap = lambda v: PW(x=v)
        S.enc, S.dec, S.real_enc, S.real_dec = codec_pair(fmt, PW)
        S.RT = PW
    S.basic = BasicEncoder(S.RT).encode
    # (c) boundary values through the real library, at import (untraced)
    S.real_runs = 0
    ctx0 = symval.Ctx(symval.Bounds(maxlen=1, maxkeys=1, poolmax=2))
    n0 = symval.plan(T, ctx0)
    for fill in (0, 1):
        env0 = {}
        for name, ann, pre in ctx0.vars:
            env0[name] = {"int": fill * 7, "str": "aé"[:fill * 2], "bool": bool(fill), "float": fill * 1.5}[ann]
            if name[0] in "nk":
                env0[name] = fill if name[0] == "n" else 0
        v0 = S.wrap(n0.make(env0))
        # warm-up: lazily compiled / postponed methods must be compiled here, untraced, not during the symbolic run
        st, doc0 = call(S.enc, v0)
        if st == "ok":
            call(S.dec, transport_image(doc0, fmt))
        if fmt == "toml" and has_none(S.basic(v0)):
            continue
        real_check(S, v0)
    return S


def has_none(x):
    if x is None:
        return True
    if isinstance(x, dict):
        return any(has_none(v) for v in x.values())
    if isinstance(x, (list, tuple)):
        return any(has_none(v) for v in x)
    return False


def representable(fmt, x):
    """the format's representable subset as the property states it: naive times only for orjson and TOML"""
    import datetime as _dt

    if isinstance(x, _dt.time) and x.tzinfo is not None and fmt in ("orjson", "toml"):
        return False
    if isinstance(x, dict):
        return all(representable(fmt, v) for v in x.values())
    if isinstance(x, (list, tuple, set, frozenset)):
        return all(representable(fmt, v) for v in x)
    if dataclasses.is_dataclass(x) and not isinstance(x, type):
        return all(representable(fmt, getattr(x, f.name)) for f in dataclasses.fields(x))
    return True


def real_check(S, v):
    """the same obligation through the real format library (stub validation; AssertionError = stub or library disagreement)"""
    if not representable(S.fmt, v):
        return
    data = S.real_enc(v)
    back = S.real_dec(data)
    if not (deep_eq(back, v) and same_classes(back, v)):
        raise AssertionError("VF-REAL-LIBRARY round trip differs for %s: %r -> %r -> %r" % (S.fmt, v, data, back))
    S.real_runs += 1


def main(S, env):
    if S.variant == "wiring":
        return wiring_main(S, env)
    v = S.wrap(S.node.make(env))
    st, doc = call(S.enc, v)
    if st == "exc":
        return fail("C04/encode-raised:%s:%s" % (S.fmt, type(doc).__name__), value=v, exc=doc)
    st, basic = call(S.basic, v)
    if st == "exc":
        raise AssertionError("basic encoder failed: %r" % (basic,))
    drop = S.fmt == "toml"
    if not oracle.exact_eq(canonical(doc, drop), canonical(basic, drop)):
        return fail("C04/document-differs-from-basic-form:%s" % S.fmt, value=v, document=doc, basic=basic)
    if S.fmt == "toml" and has_none(canonical(doc, True)):
        return True  # a null inside an array/table value is not representable in TOML
    st, back = call(S.dec, transport_image(doc, S.fmt))
    if st == "exc":
        if S.fmt == "toml" and has_none(basic):
            return True  # a required null-valued field cannot be written to TOML at all
        return fail("C04/decode-raised:%s:%s" % (S.fmt, type(back).__name__), value=v, document=doc, exc=back)
    if not deep_eq(back, v) or not same_classes(back, v):
        if S.fmt == "toml" and has_none(basic):
            return True
        return fail("C04/round-trip-differs:%s" % S.fmt, value=v, document=doc, back=back)
    if not tracing() and not (S.fmt == "toml" and has_none(basic)):
        real_check(S, v)
    return True


def twin(S, env):
    if S.variant == "wiring":
        return not (env[S.node.given] and main(S, env))
    return not (region(S.ctx, env) and main(S, env))


# ------------------------------------------------------------------ (b) wiring
class WiringInput(symval.Node):
    def __init__(self, ctx):
        self.a = ctx.new("i", "int")
        self.opt = ctx.new("i", "int", "0 <= $ < 1024")
        self.given = ctx.new("b", "bool")

    def make(self, env):
        return env[self.a]


def make_input_plan(T, variant, **kw):
    ctx = symval.Ctx()
    return ctx, WiringInput(ctx)


def wiring_setup():
    from mashumaro.config import BaseConfig
    from mashumaro.mixins.json import DataClassJSONMixin
    from mashumaro.mixins.msgpack import DataClassMessagePackMixin
    from mashumaro.mixins.orjson import DataClassORJSONMixin
    from mashumaro.mixins.toml import DataClassTOMLMixin
    from mashumaro.mixins.yaml import DataClassYAMLMixin

    All = dataclasses.make_dataclass(
        "All", [("a", int), ("d", datetime.date, dataclasses.field(default=datetime.date(2020, 1, 2))),
                ("b", bytes, dataclasses.field(default=b"xy"))],
        bases=(DataClassORJSONMixin, DataClassMessagePackMixin, DataClassYAMLMixin, DataClassTOMLMixin),
        namespace={"Config": type("Config", (BaseConfig,), {"orjson_options": 16})})
    from mashumaro.config import ADD_DIALECT_SUPPORT
    from mashumaro.dialect import Dialect

    global WDialect, AllD
    WDialect = type("WDialect", (Dialect,), {"omit_none": True, "__module__": __name__})
    AllD = dataclasses.make_dataclass(
        "AllD", [("a", int), ("n", typing.Optional[int], dataclasses.field(default=None))], bases=(DataClassORJSONMixin,),
        namespace={"Config": type("Config", (BaseConfig,), {"orjson_options": 16, "code_generation_options": [ADD_DIALECT_SUPPORT]}),
                   "__module__": __name__})
    AllD(a=1).to_jsonb(dialect=WDialect)  # compiled here, untraced
    return All


class Spy:
    def __init__(self):
        self.calls = []

    def __call__(self, data, **kw):
        self.calls.append((data, kw))
        return data


def wiring_main(S, env):
    a = env[S.node.a]
    x = S.All(a=a)
    basic = {"a": a, "d": "2020-01-02", "b": "eHk=\n"}
    st, d = call(x.to_dict)
    if st == "exc" or d != basic:
        return fail("C04/wiring:to_dict-overwritten", got=d, want=basic)
    spy = Spy()
    if env[S.node.given]:
        opt = env[S.node.opt]
        st, out = call(lambda: x.to_jsonb(encoder=spy, orjson_options=opt))
        want_opt = opt
    else:
        st, out = call(lambda: x.to_jsonb(encoder=spy))
        want_opt = 16
    if st == "exc":
        return fail("C04/wiring:to_jsonb-raised", exc=out)
    if len(spy.calls) != 1 or spy.calls[0][1].get("option") != want_opt:
        return fail("C04/wiring:orjson_options-not-forwarded", calls=spy.calls, want=want_opt)
    if out != {"a": a, "d": datetime.date(2020, 1, 2), "b": "eHk=\n"}:
        return fail("C04/wiring:to_jsonb-wrong-dialect", got=out)
    # the same options must reach the encoder when a dialect is passed with the call
    spy2 = Spy()
    y = AllD(a=a)
    if env[S.node.given]:
        st, out = call(lambda: y.to_jsonb(encoder=spy2, orjson_options=env[S.node.opt], dialect=WDialect))
    else:
        st, out = call(lambda: y.to_jsonb(encoder=spy2, dialect=WDialect))
    if st == "exc":
        return fail("C04/wiring:to_jsonb-with-dialect-raised", exc=out)
    if len(spy2.calls) != 1 or spy2.calls[0][1].get("option") != want_opt:
        return fail("C04/wiring:orjson_options-not-forwarded-with-dialect", calls=spy2.calls, want=want_opt)
    if out != {"a": a}:
        return fail("C04/wiring:to_jsonb-dialect-not-applied", got=out)
    st, out = call(lambda: x.to_msgpack(encoder=ident))
    if st == "exc" or out != {"a": a, "d": "2020-01-02", "b": b"xy"}:
        return fail("C04/wiring:to_msgpack-wrong-dialect", got=out)
    st, out = call(lambda: x.to_toml(encoder=ident))
    if st == "exc" or out != {"a": a, "d": datetime.date(2020, 1, 2), "b": "eHk=\n"}:
        return fail("C04/wiring:to_toml-wrong-dialect", got=out)
    st, out = call(lambda: x.to_yaml(encoder=ident))
    if st == "exc" or out != basic:
        return fail("C04/wiring:to_yaml-wrong", got=out)
    for meth, doc in (("from_json", {"a": a, "d": "2020-01-02", "b": "eHk=\n"}),
                      ("from_msgpack", {"a": a, "d": "2020-01-02", "b": b"xy"}),
                      ("from_toml", {"a": a, "d": datetime.date(2020, 1, 2), "b": "eHk=\n"}),
                      ("from_yaml", basic), ("from_dict", basic)):
        fn = getattr(S.All, meth)
        st, back = call(lambda: fn(doc, decoder=ident) if meth != "from_dict" else fn(doc))
        if st == "exc" or back != x:
            return fail("C04/wiring:%s-wrong" % meth, doc=doc, got=back)
    if not tracing():
        # the real transports, one model per replay
        if S.All.from_json(x.to_json()) != x or S.All.from_msgpack(x.to_msgpack()) != x or S.All.from_yaml(x.to_yaml()) != x \
                or S.All.from_toml(x.to_toml()) != x or type(x.to_json()) is not str or type(x.to_jsonb()) is not bytes:
            raise AssertionError("VF-REAL-LIBRARY wiring round trip differs")
    return True
