"""C05 -- failures surface only as the documented exceptions and name the culprit (harness side)."""
import dataclasses

from mashumaro.exceptions import (ExtraKeysError, InvalidFieldValue, MissingDiscriminatorError, MissingField,
                                  SuitableVariantNotFoundError)

from vf import arb, oracle, symval, tinfo
from vf.hlib import call, fail, pick
from vf.props.common import deep_eq, known_defect_suffix, leaf_strings

NON_DICTS = [None, 5, "str", [1], 1.5, True]


class S_:
    pass


class ListOfChildren(symval.Node):
    """a list input (length <= n) whose items are arbitrary children: reaches positions inside tuple-like fields"""

    def __init__(self, ctx, n, extra):
        self.n = ctx.new("n", "int", "0 <= $ <= %d" % n)
        self.items = [arb.Child(ctx, extra, base=[None, 7, "abc"]) for _ in range(n)]

    def make(self, env):
        k = pick(env[self.n], len(self.items) + 1)
        return [self.items[j].make(env) for j in range(k)]


class DictOfChildren(symval.Node):
    """a dict input whose keys (each with symbolic presence) carry arbitrary children: a named tuple read with the as_dict engine"""

    def __init__(self, ctx, keys, extra):
        self.keys = keys
        self.flags = [ctx.new("p", "bool") for _ in keys]
        self.items = [arb.Child(ctx, (), base=[7, "abc"]) for _ in keys]

    def make(self, env):
        d = {}
        for k, fl, it in zip(self.keys, self.flags, self.items):
            if env[fl]:
                d[k] = it.make(env)
        return d


class Input(symval.Node):
    """dict input for dataclass T: per field a presence flag; fields in `bad` are arbitrary children, the others
    carry the reference encoding of a conforming symbolic value; plus stranger keys and a non-dict root selector."""

    def __init__(self, ctx, T, bad, strangers=("zz",)):
        self.T = T
        self.root = ctx.new("k", "int", "0 <= $ <= %d" % len(NON_DICTS))
        strs = leaf_strings(T)
        self.fields = []
        for n, ft, f in tinfo.dc_fields(T):
            if not f.init:
                continue
            key = oracle.field_alias(T, n, ft, f) or n
            if len(bad) > 1 and n not in bad:
                flag = None  # pairs: the other fields are always present (their absence is covered by the singles)
            else:
                flag = ctx.new("p", "bool")
            if n in bad and tinfo.info(ft).kind == "namedtuple" and f.metadata.get("deserialize") == "as_dict":
                node = DictOfChildren(ctx, [x for x, _ in tinfo.nt_fields(tinfo.info(ft).type)], strs[:1])
                self.fields.append((n, key, flag, "arb", node, ft))
                continue
            if n in bad and tinfo.info(ft).kind in ("namedtuple", "tuple_fixed", "tuple_var", "seq"):
                node = ListOfChildren(ctx, 4, strs[:2])
                self.fields.append((n, key, flag, "arb", node, ft))
                continue
            if n in bad:
                node = arb.Child(ctx, strs[:6] if len(bad) < 2 else strs[:2])
                self.fields.append((n, key, flag, "arb", node, ft))
            else:
                start = len(ctx.vars)
                node = symval.plan(ft, ctx)
                # the inner shape of a VALID field (list length, None-ness, pool choice) is not what this obligation is about:
                # pinned (scalars stay symbolic, presence of the key stays symbolic)
                ctx.pin_from(start)
                self.fields.append((n, key, flag, "valid", node, ft))
        extra = [f.name for f in __import__("dataclasses").fields(T) if not f.init]
        self.strangers = [(s, ctx.new("p", "bool"), symval.Const(1)) for s in list(strangers) + extra] if len(bad) < 2 else []
        # under allow_deserialization_not_by_alias the field NAME is a second accepted key
        self.by_name = []
        if oracle.cfg(T, "allow_deserialization_not_by_alias", False) and len(bad) < 2:
            for n, key, flag, mode, node, ft in self.fields:
                if key != n and (n in bad or not bad):
                    self.by_name.append((n, ctx.new("p", "bool"), ctx.new("i", "int")))

    def make(self, env):
        r = pick(env[self.root], len(NON_DICTS) + 1)
        if r > 0:
            return NON_DICTS[r - 1]
        d = {}
        for n, key, flag, mode, node, ft in self.fields:
            if flag is None or env[flag]:
                v = node.make(env)
                d[key] = v if mode == "arb" else oracle.ref_encode(ft, v)
        for s, flag, node in self.strangers:
            if env[flag]:
                d[s] = node.make(env)
        for n, flag, val in getattr(self, "by_name", []):
            if env[flag]:
                d[n] = env[val]
        return d


def make_input_plan(T, variant, bad=()):
    ctx = symval.Ctx(symval.Bounds(maxlen=1, maxkeys=1, poolmax=1))
    node = Input(ctx, T, set(bad))
    return ctx, node


def setup(T, NODE, CTX, variant, bad=()):
    S = S_()
    S.T, S.node, S.ctx, S.variant = T, NODE, CTX, variant
    if variant == "mixin":
        S.decode = T.from_dict
    else:
        from mashumaro.codecs.basic import BasicDecoder

        S.decode = BasicDecoder(T).decode
    return S


def main(S, env):
    d = S.node.make(env)
    twin_d = S.node.make(env)
    return compare_outcome(S, d, twin_d, "C05")


def compare_outcome(S, d, twin_d, P):
    st_r, r = call(S.decode, d)
    st_o, o = call(oracle.ref_decode, S.T, d)
    if not deep_eq(d, twin_d):
        return fail(P + "/input-mutated", before=twin_d, after=d)
    if st_r == "ok":
        if st_o != "ok":
            k = known_defect_suffix(S.T, d, r)
            return fail(P + "/" + (k or "accepted-invalid:%s" % ref_kind(o)), input=d, result=r, ref=o)
        if not deep_eq(r, o):
            k = known_defect_suffix(S.T, d, r)
            return fail(P + "/" + (k or "result-differs"), input=d, result=r, reference=o)
        return True
    e = r
    if st_o == "ok":
        return fail(P + "/rejected-valid:%s" % type(e).__name__, input=d, exc=e)
    if not isinstance(o, oracle.RefError):
        raise AssertionError("oracle raised %r" % (o,))
    # classification of one recorded defect: with the 'null union member swallows unmatched input' behaviour switched on in
    # the reference, does the reference fail exactly like the real code?
    st_k, k = call(oracle.ref_decode, S.T, d, None, oracle.NONE_FALLBACK)
    if st_k == "exc" and isinstance(k, oracle.RefError) and (k.kind, k.field_name) != (o.kind, o.field_name):
        if type(e) in (MissingField, InvalidFieldValue) and getattr(e, "field_name", None) == k.field_name:
            return fail(P + "/union-none-fallback", input=d, exc=e, strict_reference=(o.kind, o.field_name))
    if o.kind == "not-a-dict":
        if type(e) is not ValueError:
            return fail(P + "/non-dict-wrong-exception:%s" % type(e).__name__, input=d, exc=e)
        return True
    if o.kind == "extra":
        if type(e) is not ExtraKeysError:
            return fail(P + "/extra-keys-wrong-exception:%s" % type(e).__name__, input=d, exc=e)
        if set(e.extra_keys) != set(o.extra):
            return fail(P + "/extra-keys-wrong-set", input=d, got=e.extra_keys, want=o.extra)
        return True
    if o.kind == "missing":
        if type(e) is not MissingField:
            return fail(P + "/missing-wrong-exception:%s" % type(e).__name__, input=d, exc=e, want_field=o.field_name)
        if e.field_name != o.field_name or e.holder_class is not o.holder:
            return fail(P + "/missing-wrong-culprit", input=d, got=e.field_name, want=o.field_name)
        return True
    if o.kind == "invalid":
        if type(e) is not InvalidFieldValue:
            return fail(P + "/invalid-wrong-exception:%s" % type(e).__name__, input=d, exc=e, want_field=o.field_name)
        if e.field_name != o.field_name or e.holder_class is not o.holder:
            return fail(P + "/invalid-wrong-culprit", input=d, got=e.field_name, want=o.field_name)
        if e.field_value is not o.field_value:
            return fail(P + "/invalid-wrong-value", input=d, got=e.field_value, want=o.field_value)
        return True
    raise AssertionError("unknown oracle kind %r" % (o.kind,))


def ref_kind(o):
    return getattr(o, "kind", type(o).__name__)


def twin(S, env):
    """Witness: the input is a dict with every field present and the outcome is InvalidFieldValue or an instance."""
    d = S.node.make(env)
    if not isinstance(d, dict):
        return True
    for n, key, flag, mode, node, ft in S.node.fields:
        if flag is not None and not env[flag]:
            return True
    st_r, r = call(S.decode, d)
    return not main(S, env)
