"""C06 -- generated JSON Schema accepts everything the serializer produces (harness side).
The real jsonschema Draft 2020-12 validator runs symbolically on jsonify(encode(v))."""
import dataclasses
import json

import jsonschema

from mashumaro.codecs.basic import BasicEncoder
from mashumaro.dialect import Dialect
from mashumaro.jsonschema import DRAFT_2020_12, OPEN_API_3_1, build_json_schema

from vf import tinfo
from vf.hlib import call, fail, tracing
from vf.props.common import region


class ByAlias(Dialect):
    serialize_by_alias = True


class S_:
    pass


def jsonify(x):
    """pure-Python image of json.loads(json.dumps(x)): keys become strings, tuples lists"""
    if isinstance(x, dict):
        out = {}
        for k, v in x.items():
            if k is True:
                ks = "true"
            elif k is False:
                ks = "false"
            elif k is None:
                ks = "null"
            elif isinstance(k, str):
                ks = k
            elif isinstance(k, float):
                ks = float.__repr__(k)
            else:
                ks = str(k)
            out[ks] = jsonify(v)
        return out
    if isinstance(x, (list, tuple)):
        return [jsonify(y) for y in x]
    return x


VARIANTS = {
    "d2020": (DRAFT_2020_12, False), "d2020_refs": (DRAFT_2020_12, True),
    "oapi": (OPEN_API_3_1, True), "oapi_inline": (OPEN_API_3_1, False),
}


def setup(T, NODE, CTX, variant):
    S = S_()
    S.T, S.node, S.ctx, S.variant = T, NODE, CTX, variant
    dialect, all_refs = VARIANTS[variant]
    S.all_refs = all_refs
    schema = build_json_schema(T, dialect=dialect, all_refs=all_refs)
    doc = schema.to_dict()
    if "$defs" in doc and dialect is OPEN_API_3_1:
        doc.setdefault("components", {})["schemas"] = doc["$defs"]
    S.doc = doc
    jsonschema.Draft202012Validator.check_schema(doc)
    S.validator = jsonschema.Draft202012Validator(doc)
    S.encode = BasicEncoder(T, default_dialect=ByAlias).encode
    ti = tinfo.info(T)
    S.dc = ti.kind == "dataclass"
    S.defaulted, S.required = [], []
    if S.dc:
        from vf import oracle

        for n, ft, f in tinfo.dc_fields(ti.type):
            if not f.init:
                continue
            key = oracle.field_alias(ti.type, n, ft, f) or n
            has = f.default is not dataclasses.MISSING or f.default_factory is not dataclasses.MISSING
            (S.defaulted if has else S.required).append(key)
    return S


def main(S, env):
    v = S.node.make(env)
    st, d = call(S.encode, v)
    if st == "exc":
        return fail("C06/encode-raised:%s" % type(d).__name__, value=v, exc=d)
    inst = jsonify(d)
    if not tracing():
        # stub validation against the real C transport
        real = json.loads(json.dumps(d))
        if real != inst and not has_nan(inst):
            raise AssertionError("jsonify stub disagrees with json round trip: %r vs %r" % (inst, real))
    st, ok = call(S.validator.is_valid, inst)
    if st == "exc":
        return fail("C06/validator-raised:%s" % type(ok).__name__, value=v, instance=inst, exc=ok)
    if not ok:
        errs, sig = [], "?"
        if not tracing():
            es = list(S.validator.iter_errors(inst))
            errs = [("/".join(map(str, e.absolute_path)), e.validator, e.message[:120]) for e in es][:3]
            sig = classify(S, es[0], v)
        return fail("C06/serialized-instance-rejected:%s" % sig, value=v, instance=inst, errors=errs, schema=S.doc)
    if S.dc:
        # 'required' lists exactly the fields without defaults
        for k in S.defaulted:
            if k in inst:
                cut = dict(inst)
                del cut[k]
                if not S.validator.is_valid(cut):
                    return fail("C06/defaulted-key-required", key=k, instance=cut, schema=S.doc)
        for k in S.required:
            cut = dict(inst)
            del cut[k]
            if S.validator.is_valid(cut):
                return fail("C06/required-key-not-required", key=k, instance=cut, schema=S.doc)
    return True


def classify(S, err, v):
    """signature of a rejection, specific enough to tell the recorded defects apart from anything new"""
    import enum

    if err.validator in ("anyOf", "oneOf") and err.context:
        # an Optional / union wrapper: the informative failure is one level down
        subs = [classify(S, e, v) for e in err.context]
        for name in ("flag-combination-not-in-enum", "init-false-field-not-in-schema"):
            if name in subs:
                return name
        for x in subs:
            if x.startswith(("propertyNames", "shared-definition-name")):
                return x
    sp = [str(x) for x in err.absolute_schema_path if not str(x).isdigit()]
    if "propertyNames" in sp:
        return "propertyNames-non-string-key-schema/" + sp[-1]
    if err.validator == "additionalProperties" and isinstance(err.instance, dict):
        extra = set(err.instance) - set((err.schema or {}).get("properties", {}))
        if extra and extra <= init_false_names(S.T):
            return "init-false-field-not-in-schema"
    if S.all_refs and ambiguous_names(S.T):
        return "shared-definition-name/" + ",".join(sorted(ambiguous_names(S.T)))
    if sp[-1:] == ["enum"] and isinstance(err.instance, int) and not isinstance(err.instance, bool):
        for fl in flag_types(S.T):
            try:
                m = fl(err.instance)
            except Exception:
                continue
            if m not in list(fl):
                return "flag-combination-not-in-enum"
    return "/".join(sp[-2:])


def _walk_types(T, seen, tv=None, depth=0):
    import typing

    if depth > 6:
        return
    try:
        ti = tinfo.info(T, tv)
    except TypeError:
        return
    yield ti
    if ti.kind == "dataclass":
        key = (ti.type, ti.args)
        if key in seen:
            return
        seen.add(key)
        tv2 = dict(tv or {})
        tv2.update(ti.extra or {})
        for n, ft, f in tinfo.dc_fields(ti.type):
            yield from _walk_types(ft, seen, tv2, depth + 1)
    elif ti.kind in ("optional", "union", "seq", "tuple_var", "map", "chainmap", "tuple_fixed"):
        for a in ti.args:
            if typing.get_origin(a) is typing.Unpack:
                a = typing.get_args(a)[0]
            yield from _walk_types(a, seen, tv, depth + 1)
    elif ti.kind == "namedtuple":
        tv = tinfo.scope(ti, tv)
        for n, ft in tinfo.nt_fields(ti.type):
            yield from _walk_types(ft, seen, tv, depth + 1)
    elif ti.kind == "typeddict":
        tv = tinfo.scope(ti, tv)
        hints, req, opt = tinfo.td_keys(ti.type)
        for kk in hints:
            yield from _walk_types(hints[kk], seen, tv, depth + 1)


def ambiguous_names(T):
    by = {}
    for ti in _walk_types(T, set()):
        if ti.kind == "dataclass":
            by.setdefault(ti.type.__name__, set()).add((ti.type, ti.args))
    return [n for n, s in by.items() if len(s) > 1]


def init_false_names(T):
    out = set()
    for ti in _walk_types(T, set()):
        if ti.kind == "dataclass":
            out.update(f.name for f in dataclasses.fields(ti.type) if not f.init)
    return out


def flag_types(T):
    import enum

    return [ti.type for ti in _walk_types(T, set()) if ti.kind == "enum" and issubclass(ti.type, enum.Flag)]


def has_nan(x):
    if isinstance(x, float):
        return x != x
    if isinstance(x, dict):
        return any(has_nan(v) for v in x.values())
    if isinstance(x, list):
        return any(has_nan(v) for v in x)
    return False


def twin(S, env):
    return not (region(S.ctx, env) and main(S, env))
