"""C07 -- absent keys take defaults, present keys always win (harness side).
Input: per constructor field a presence flag and a conforming symbolic value (incl. explicit None for nullable
fields); keys named after non-constructor members carry sentinels."""
import dataclasses

from vf import oracle, symval, tinfo
from vf.hlib import call, fail
from mashumaro.exceptions import MissingField

SENTINEL = 777
MISSING = dataclasses.MISSING


class S_:
    pass


class Input(symval.Node):
    def __init__(self, ctx, T):
        self.T = T
        self.fields = []
        for n, ft, f in tinfo.dc_fields(T):
            if not f.init:
                continue
            flag = ctx.new("p", "bool")
            self.fields.append((n, ft, f, flag, symval.plan(ft, ctx)))
        # members that are not constructor parameters: init=False fields, ClassVars, InitVars
        self.non_init = []
        for f in dataclasses.fields(T):
            if not f.init:
                self.non_init.append(f.name)
        for k, v in getattr(T, "__annotations_all__", {}).items():
            pass
        for klass in T.__mro__:
            for k, a in getattr(klass, "__annotations__", {}).items():
                s = repr(a) if not isinstance(a, str) else a
                if ("ClassVar" in s or "InitVar" in s) and k not in self.non_init:
                    self.non_init.append(k)
        self.ni_flags = [ctx.new("p", "bool") for _ in self.non_init]

    def values(self, env):
        """-> ({field: value} for present fields, input dict)"""
        vals, d = {}, {}
        for n, ft, f, flag, node in self.fields:
            if env[flag]:
                v = node.make(env)
                vals[n] = v
                key = oracle.field_alias(self.T, n, ft, f) or n
                d[key] = oracle.ref_encode(ft, v)
        for k, fl in zip(self.non_init, self.ni_flags):
            if env[fl]:
                d[k] = SENTINEL
        return vals, d


def make_input_plan(T, variant):
    ctx = symval.Ctx(symval.Bounds(maxlen=1, maxkeys=1, poolmax=2))
    return ctx, Input(ctx, T)


def setup(T, NODE, CTX, variant):
    S = S_()
    S.T, S.node, S.ctx, S.variant = T, NODE, CTX, variant
    if variant == "mixin":
        S.decode = T.from_dict
    else:
        from mashumaro.codecs.basic import BasicDecoder

        S.decode = BasicDecoder(T).decode
    # non-constructor members' pristine values, from an instance built by the plain constructor
    return S


def expected_default(f):
    if f.default is not MISSING:
        return True, f.default
    if f.default_factory is not MISSING:
        return True, f.default_factory()
    return False, None


def main(S, env):
    vals, d = S.node.values(env)
    st, r = call(S.decode, d)
    # first required field (declaration order) without a key decides
    for n, ft, f, flag, node in S.node.fields:
        has, dv = expected_default(f)
        if n not in vals and not has:
            if st == "ok":
                return fail("C07/missing-required-accepted", input=d, result=r, field=n)
            if type(r) is not MissingField or r.field_name != n:
                return fail("C07/missing-required-wrong-exception", input=d, exc=r, field=n)
            return True
    if st != "ok":
        return fail("C07/raised:%s" % type(r).__name__, input=d, exc=r)
    st2, r2 = call(S.decode, d)
    if st2 != "ok":
        return fail("C07/second-decode-raised", input=d, exc=r2)
    if type(r) is not S.T:
        return fail("C07/wrong-class", input=d, result=r)
    for n, ft, f, flag, node in S.node.fields:
        got = getattr(r, n)
        if n in vals:
            if not (got == vals[n]) or type(got) is not type(vals[n]):
                return fail("C07/present-key-lost:%s" % kind_of(f), input=d, field=n, got=got, want=vals[n])
        else:
            has, dv = expected_default(f)
            if not (got == dv) or type(got) is not type(dv):
                return fail("C07/default-not-used:%s" % kind_of(f), input=d, field=n, got=got, want=dv)
            if f.default_factory is not MISSING and isinstance(got, (list, dict, set)):
                if got is getattr(r2, n):
                    return fail("C07/factory-result-shared", input=d, field=n)
    # non-constructor members untouched
    pristine = S.T(**{n: vals[n] for n in vals})
    for k in S.node.non_init:
        a = getattr(r, k, MISSING)
        b = getattr(pristine, k, MISSING)
        if a is MISSING and b is MISSING:
            continue
        if not (a == b):
            return fail("C07/non-init-member-read-from-input", input=d, member=k, got=a, want=b)
    return True


def kind_of(f):
    if f.default_factory is not MISSING:
        return "factory"
    if f.default is not MISSING:
        return "default-none" if f.default is None else "default"
    return "required"


def twin(S, env):
    """Witness: at least one defaulted field absent, one present, decode succeeded."""
    absent = present = False
    for n, ft, f, flag, node in S.node.fields:
        has, _ = expected_default(f)
        if has:
            if env[flag]:
                present = True
            else:
                absent = True
        elif not env[flag]:
            return True
    if not (absent and present) and len([1 for x in S.node.fields if expected_default(x[2])[0]]) > 1:
        return True
    return not main(S, env)
