"""C08 -- serialization options only project the plain output (harness side).
The optioned class X and an option-free twin class P with the same fields are built at import; instance values and
the keyword flags are solver variables; post: list(X(v).to_dict(**kw).items()) == PROJECT(o, P(v).to_dict())."""
import dataclasses

from vf import symval, tinfo
from vf.hlib import call, fail, pick

MISSING = dataclasses.MISSING
U = None  # unset


class S_:
    pass


def eff(*levels):
    """first level that sets the option (keyword > call dialect > Config.dialect > Config); default False"""
    for x in levels:
        if x is not None:
            return x
    return False


class Input(symval.Node):
    def __init__(self, ctx, X, spec):
        spec = spec[X]
        self.spec = spec
        start = len(ctx.vars)
        self.node = symval.plan(X, ctx)
        self.kw_on = ctx.new("k", "int", "0 <= $ < 3") if spec["flags"].get("omit_none") else None
        self.kw_alias = ctx.new("k", "int", "0 <= $ < 3") if spec["flags"].get("by_alias") else None
        nd = len(spec.get("call_dialects", []))
        self.kw_dialect = ctx.new("k", "int", "0 <= $ < %d" % (nd + 1)) if spec["flags"].get("dialect") and nd else None

    def make(self, env):
        return self.node.make(env)

    def kwargs(self, env):
        kw = {}
        sel = {}
        for name, var in (("omit_none", self.kw_on), ("by_alias", self.kw_alias)):
            if var is not None:
                j = pick(env[var], 3)
                if j == 1:
                    kw[name] = False
                elif j == 2:
                    kw[name] = True
        if self.kw_dialect is not None:
            j = pick(env[self.kw_dialect], len(self.spec["call_dialects"]) + 1)
            if j > 0:
                kw["dialect"] = self.spec["call_dialects"][j - 1]
        return kw


def make_input_plan(T, variant, spec=None, plain=None):
    ctx = symval.Ctx(symval.Bounds(maxlen=1, maxkeys=1, poolmax=2))
    return ctx, Input(ctx, T, spec)


def setup(T, NODE, CTX, variant, spec=None, plain=None):
    S = S_()
    S.T, S.node, S.ctx = T, NODE, CTX
    S.spec_of = spec.__getitem__
    S.plain_of = plain
    sp = spec[T]
    # steps that run the generator at call time (lazy compilation, a dialect not yet cached) happen here, untraced,
    # on concrete data; the traced observation then sees only compiled code (DESIGN 3.2(8))
    S.warm = []
    ctx0 = symval.Ctx(symval.Bounds(maxlen=1, maxkeys=1, poolmax=1))
    warm_node = symval.plan(T, ctx0)
    env0 = {}
    for name, ann, pre in ctx0.vars:
        env0[name] = {"int": 0, "str": "", "bool": False, "float": 0.0}[ann]
    x0 = warm_node.make(env0)
    for kw in [{}] + [{"dialect": d} for d in (sp_dialects(spec[T]))]:
        S.warm.append((kw, call(lambda: x0.to_dict(**kw))[0]))
    S.vector_is_plain = not (any(v for k, v in sp["config"].items() if k != "aliases") or any(sp["flags"].values()))
    return S


def sp_dialects(sp):
    return sp["call_dialects"] if sp["flags"].get("dialect") else []


def dialect_opt(d, name):
    if d is None:
        return None
    v = getattr(d, name, None)
    if type(v).__name__ == "Sentinel":
        return None
    return v


def project(cls, spec_of, inst, plain_dict, kw, top=True, inherited_kw=None):
    """PROJECT(o, plain): walk the fields of `cls` in declaration (or sorted) order."""
    spec = spec_of(cls)
    cfg = spec["config"]
    flags = spec["flags"]
    call_d = kw.get("dialect") if flags.get("dialect") else None
    cfg_d = cfg.get("dialect")
    omit_none = eff(kw.get("omit_none") if flags.get("omit_none") else None,
                    dialect_opt(call_d, "omit_none"), dialect_opt(cfg_d, "omit_none"), cfg.get("omit_none"))
    by_alias = eff(kw.get("by_alias") if flags.get("by_alias") else None,
                   dialect_opt(call_d, "serialize_by_alias"), dialect_opt(cfg_d, "serialize_by_alias"),
                   cfg.get("serialize_by_alias"))
    omit_default = eff(dialect_opt(call_d, "omit_default"), dialect_opt(cfg_d, "omit_default"), cfg.get("omit_default"))
    fields = [(n, ft, f) for n, ft, f in tinfo.dc_fields(cls)]
    if cfg.get("sort_keys"):
        fields = sorted(fields, key=lambda x: x[0])
    out = []
    for n, ft, f in fields:
        if f.metadata.get("serialize") == "omit":
            continue
        v = getattr(inst, n)
        if omit_none and v is None:
            continue
        if omit_default:
            if f.default is not MISSING:
                if v == f.default:
                    continue
            elif f.default_factory is not MISSING:
                if v == f.default_factory():
                    continue
        key = n
        if by_alias:
            a = f.metadata.get("alias") or (cfg.get("aliases") or {}).get(n)
            if a:
                key = a
        pv = plain_dict[n]
        if dataclasses.is_dataclass(v) and not isinstance(v, type):
            # nested class: its own options; keyword flags reach it only if it opted in to the same flag
            nspec = spec_of(type(v))
            # a nested class that opted in to the same flag receives the outer call's resolved value
            nkw = {}
            resolved = {"omit_none": omit_none, "by_alias": by_alias}
            for name in ("omit_none", "by_alias"):
                if flags.get(name) and nspec["flags"].get(name):
                    nkw[name] = resolved[name]
            if "dialect" in kw and flags.get("dialect") and nspec["flags"].get("dialect"):
                nkw["dialect"] = kw["dialect"]
            pv = dict(project(type(v), spec_of, v, pv, nkw, top=False))
        out.append((key, pv))
    return out


def main(S, env):
    x = S.node.make(env)
    kw = S.node.kwargs(env)
    st, real = call(lambda: x.to_dict(**kw))
    if st == "exc":
        lazy = "+lazy+dialect-kw" if (S.spec_of(type(x))["config"].get("lazy") and "dialect" in kw) else ""
        return fail("C08/to_dict-raised:%s%s" % (type(real).__name__, lazy), value=x, kwargs=kw, exc=real)
    p = to_plain(S, x)
    st, plain = call(p.to_dict)
    if st == "exc":
        raise AssertionError("plain twin failed: %r" % (plain,))
    want = project(type(x), S.spec_of, x, plain, kw)
    if list(real.items()) != want:
        sig = classify(real, want)
        # classification of one known defect: keyword flag enabled but not given, call dialect sets the option,
        # output follows the keyword's config-derived default instead of the dialect
        if "dialect" in kw:
            kw2 = dict(kw)
            sp = S.spec_of(type(x))
            for name, opt in (("omit_none", "omit_none"), ("by_alias", "serialize_by_alias")):
                if sp["flags"].get(name) and name not in kw:
                    kw2[name] = eff(dialect_opt(sp["config"].get("dialect"), opt), sp["config"].get(opt))
            if kw2 != kw and list(real.items()) == project(type(x), S.spec_of, x, plain, kw2):
                sig = "C08/keyword-default-shadows-call-dialect"
        return fail(sig, value=x, kwargs=kw, real=real, want=dict(want), plain=plain)
    return True


def classify(real, want):
    rk, wk = list(real), [k for k, _ in want]
    if rk != wk:
        if sorted(rk) == sorted(wk):
            return "C08/projection-mismatch:key-order"
        return "C08/projection-mismatch:keys"
    return "C08/projection-mismatch:values"


def to_plain(S, x):
    """Rebuild the same values on the option-free twin classes."""
    def conv(v):
        if dataclasses.is_dataclass(v) and not isinstance(v, type):
            P = S.plain_of[type(v)]
            return P(**{f.name: conv(getattr(v, f.name)) for f in dataclasses.fields(v)})
        return v
    return conv(x)


def twin(S, env):
    """Witness: some key was dropped or renamed relative to the plain output (or the vector is option-free)."""
    x = S.node.make(env)
    # region where the options matter: a None value, a value equal to its default, a non-None nullable
    if hasattr(x, "c"):
        if x.b is not None or x.c != 5 or x.z is None:
            return True
    elif x.b is not None or x.t != (1, 2) or x.a is None:
        return True
    return not main(S, env)
