"""C09 -- input keys are resolved by the documented alias rules (harness side).
Input: presence (symbolic) of every candidate key -- names, each alias, shadowed aliases, strangers, every string
literal harvested from the generated source -- each carrying a distinct symbolic int."""
from vf import hlib, oracle, symval, tinfo
from vf.hlib import call, fail
from vf.props import c05


class S_:
    pass


class KeysInput(symval.Node):
    def __init__(self, ctx, keys):
        self.keys = keys
        self.flags = [ctx.new("p", "bool") for _ in keys]
        self.vals = [ctx.new("i", "int") for _ in keys]

    def make(self, env):
        d = {}
        for k, fl, v in zip(self.keys, self.flags, self.vals):
            if env[fl]:
                d[k] = env[v]
        return d


def candidate_keys(T, extra=()):
    keys = []

    def add(k):
        if isinstance(k, str) and k not in keys:
            keys.append(k)

    for n, ft, f in tinfo.dc_fields(T):
        add(n)
        add(f.metadata.get("alias"))
        add(oracle.field_alias(T, n, ft, f))
    for a in (oracle.cfg(T, "aliases", {}) or {}).values():
        add(a)
    for k in extra:
        add(k)
    for k in hlib.harvested_literals():  # keys the generated code really looks up (e.g. 'None')
        add(k)
    add("zz")
    return keys


def make_input_plan(T, variant, extra=()):
    ctx = symval.Ctx()
    return ctx, KeysInput(ctx, candidate_keys(T, extra))


def setup(T, NODE, CTX, variant, extra=()):
    S = S_()
    S.T, S.node, S.ctx, S.variant = T, NODE, CTX, variant
    S.decode = T.from_dict
    return S


def main(S, env):
    d = S.node.make(env)
    twin_d = S.node.make(env)
    return c05.compare_outcome(S, d, twin_d, "C09")


def twin(S, env):
    for fl in S.node.flags:
        if not env[fl]:
            return True
    return not main(S, env)
