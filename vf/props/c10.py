"""C10 -- the most specific customization wins (harness side).

(a) unit level, truly symbolic: the real get_overridden_serialization_method / get_overridden_deserialization_method and
    CodeBuilder.iter_serialization_strategies run on a real CodeBuilder whose strategy maps are duck-typed objects that
    answer .get(key) from one symbolic presence bit per (level, type key) cell; post: the returned marker is the
    lexicographic minimum of the enabled cells.
(b) end to end: classes built with tagging strategies for a concrete subset of cells; symbolic value; the marker in the
    output identifies the winner."""
import dataclasses
import typing

from mashumaro import pass_through
from mashumaro.core.meta.code.builder import CodeBuilder
from mashumaro.core.meta.types.common import FieldContext, ValueSpec
from mashumaro.core.meta.types.pack import get_overridden_serialization_method
from mashumaro.core.meta.types.unpack import get_overridden_deserialization_method
from mashumaro.dialect import Dialect
from mashumaro.mixins.dict import DataClassDictMixin
from mashumaro.config import BaseConfig

from vf import symval
from vf.hlib import call, fail

LEVELS = ("call_dialect", "config_dialect", "config_strategy", "default_dialect")
KEYS = ("alias", "exact", "origin")
ALIAS_T = typing.Annotated[typing.List[int], "tag"]
EXACT_T = typing.List[int]
ORIGIN_T = list
KEY_OBJ = {"alias": ALIAS_T, "exact": EXACT_T, "origin": ORIGIN_T}


class S_:
    pass


class Marker:
    def __init__(self, name):
        self.name = name

    def __call__(self, v):
        return (self.name, v)

    def __repr__(self):
        return "Marker(%s)" % self.name


ENV = {}
MARK = {}


def marker(cell, direction):
    k = (cell, direction)
    if k not in MARK:
        MARK[k] = Marker("%s:%s" % (cell, direction))
    return MARK[k]


class SymMap:
    """duck-typed serialization_strategy mapping answering from the current symbolic environment"""

    def __init__(self, level):
        self.level = level

    def get(self, key, default=None):
        for kn, ko in KEY_OBJ.items():
            if key is ko or (kn != "alias" and key == ko and key is not ALIAS_T):
                bit = ENV["%s/%s" % (self.level, kn)]
                if bit:
                    return {"serialize": marker("%s/%s" % (self.level, kn), "ser"),
                            "deserialize": marker("%s/%s" % (self.level, kn), "de")}
                return None
        return None


class SymMeta:
    """field metadata"""

    def get(self, key, default=None):
        if key in ("serialize", "deserialize"):
            if ENV["field/option"]:
                return marker("field/option", "ser" if key == "serialize" else "de")
            return None
        if key == "serialization_strategy":
            if ENV["field/strategy"]:
                return {"serialize": marker("field/strategy", "ser"), "deserialize": marker("field/strategy", "de")}
            return None
        return default


CELLS = ["field/option", "field/strategy"] + ["%s/%s" % (l, k) for l in LEVELS for k in KEYS]


def expected_cell(env):
    """lexicographic minimum ordered by (field options, key specificity, level)"""
    if env["field/option"]:
        return "field/option"
    if env["field/strategy"]:
        return "field/strategy"
    for k in KEYS:
        for l in LEVELS:
            if env["%s/%s" % (l, k)]:
                return "%s/%s" % (l, k)
    return None


class UnitInput(symval.Node):
    def __init__(self, ctx):
        self.vars = {c: ctx.new("p", "bool") for c in CELLS}

    def make(self, env):
        return {c: env[v] for c, v in self.vars.items()}


def make_input_plan(T, variant, **kw):
    ctx = symval.Ctx()
    if variant.startswith("unit"):
        return ctx, UnitInput(ctx)
    ctx2, node = symval.make_plan(typing.List[int], symval.Bounds(maxlen=1))
    return ctx2, node


def build_unit():
    class CallD(Dialect):
        serialization_strategy = SymMap("call_dialect")

    class CfgD(Dialect):
        serialization_strategy = SymMap("config_dialect")

    class DefD(Dialect):
        serialization_strategy = SymMap("default_dialect")

    @dataclasses.dataclass
    class Holder:
        x: int = 0

        class Config(BaseConfig):
            dialect = CfgD
            serialization_strategy = SymMap("config_strategy")

    b = CodeBuilder(Holder, dialect=CallD, default_dialect=DefD)
    b.reset()
    return b


def setup(T, NODE, CTX, variant, **kw):
    S = S_()
    S.T, S.node, S.ctx, S.variant = T, NODE, CTX, variant
    if variant.startswith("unit"):
        S.builder = build_unit()
        S.fn = get_overridden_serialization_method if variant == "unit_ser" else get_overridden_deserialization_method
        S.dir = "ser" if variant == "unit_ser" else "de"
    else:
        S.cells = kw["cells"]
        S.pt = kw.get("pass_through")
        setup_e2e(S)
    return S


def unit_main(S, env):
    cells = S.node.make(env)
    ENV.clear()
    ENV.update(cells)
    spec = ValueSpec(type=EXACT_T, expression="value", builder=S.builder,
                     field_ctx=FieldContext(name="x", metadata=SymMeta()), annotated_type=ALIAS_T)
    st, got = call(S.fn, spec)
    if st == "exc":
        return fail("C10/resolution-raised:%s" % type(got).__name__, cells=cells, exc=got)
    want = expected_cell(cells)
    if want is None:
        if got is not None:
            return fail("C10/unit-winner-when-nothing-enabled", cells=cells, got=got)
        return True
    if got is not marker(want, S.dir):
        return fail("C10/unit-wrong-winner:%s" % S.dir, enabled=[c for c in CELLS if cells[c]], got=got, want=want)
    return True


def unit_twin(S, env):
    cells = S.node.make(env)
    if cells["field/option"] or cells["field/strategy"] or not cells["default_dialect/origin"] or not cells["config_strategy/exact"]:
        return True
    return not unit_main(S, env)


# ------------------------------------------------------------------ end to end
def e2e_expected(S):
    env = {c: (c in S.cells) for c in CELLS}
    return expected_cell(env)


def main(S, env):
    if S.variant.startswith("unit"):
        return unit_main(S, env)
    v = S.node.make(env)
    want = e2e_expected(S)
    kw = {"dialect": S.call_dialect} if S.call_dialect is not None else {}
    if S.variant in ("mixin", "mixin3"):
        st, d = call(lambda: S.cls(x=v).to_dict(**kw))
        got = d.get("x") if st == "ok" else d
    else:
        st, got = call(S.enc.encode, v)
    if st == "exc":
        return fail("C10/e2e-encode-raised:%s" % type(got).__name__, cells=S.cells, exc=got)
    if want is None:
        exp = list(v)
    elif S.pt == want:
        exp = v
    else:
        exp = ("%s:ser" % want, v)
    if got != exp or (S.pt is not None and S.pt == want and got is not v):
        return fail("C10/e2e-wrong-winner:ser", cells=S.cells, got=got, want=exp)
    # deserialize direction: the marker wraps the raw input
    raw = list(v)
    if S.variant in ("mixin", "mixin3"):
        st, r = call(lambda: S.cls.from_dict({"x": raw}, **kw))
        got = r.x if st == "ok" else r
    else:
        st, got = call(S.dec.decode, raw)
    if st == "exc":
        return fail("C10/e2e-decode-raised:%s" % type(got).__name__, cells=S.cells, exc=got)
    if want is None:
        exp = raw
    elif S.pt == want:
        exp = raw
    else:
        exp = ("%s:de" % want, raw)
    if got != exp or (S.pt is not None and S.pt == want and got is not raw):
        return fail("C10/e2e-wrong-winner:de", cells=S.cells, got=got, want=exp)
    return True


def twin(S, env):
    if S.variant.startswith("unit"):
        return unit_twin(S, env)
    v = S.node.make(env)
    if len(v) != 1:
        return True
    return not main(S, env)


def strategy_for(cell, pt):
    if pt == cell:
        return pass_through
    return {"serialize": marker(cell, "ser"), "deserialize": marker(cell, "de")}


def build_e2e(cells, variant, pt=None):
    """Build the real class / codec with tagging strategies registered at exactly `cells`."""
    def smap(level):
        return {KEY_OBJ[k]: strategy_for("%s/%s" % (level, k), pt) for k in KEYS if "%s/%s" % (level, k) in cells}

    call_d = cfg_d = def_d = None
    if any(c.startswith("call_dialect/") for c in cells):
        call_d = type("CallD", (Dialect,), {"serialization_strategy": smap("call_dialect")})
    if any(c.startswith("config_dialect/") for c in cells):
        cfg_d = type("CfgD", (Dialect,), {"serialization_strategy": smap("config_dialect")})
    if any(c.startswith("default_dialect/") for c in cells):
        def_d = type("DefD", (Dialect,), {"serialization_strategy": smap("default_dialect")})
    # generated code refers to a default dialect by its module-qualified name: make the classes importable by name
    # (dialects that are NOT importable by name are the subject of C17, not of C10)
    for d in (call_d, cfg_d, def_d):
        if d is not None:
            globals()[d.__name__] = d
    if variant == "codec":
        from mashumaro.codecs.basic import BasicDecoder, BasicEncoder

        return None, call_d, BasicEncoder(ALIAS_T, default_dialect=def_d), BasicDecoder(ALIAS_T, default_dialect=def_d)
    md = {}
    if "field/option" in cells:
        if pt == "field/option":
            md["serialize"] = pass_through
            md["deserialize"] = pass_through
        else:
            md["serialize"] = marker("field/option", "ser")
            md["deserialize"] = marker("field/option", "de")
    if "field/strategy" in cells:
        md["serialization_strategy"] = strategy_for("field/strategy", pt)
    cfg = {"serialization_strategy": smap("config_strategy"), "code_generation_options": ["ADD_DIALECT_SUPPORT"]}
    if cfg_d is not None:
        cfg["dialect"] = cfg_d
    ns = {"Config": type("Config", (BaseConfig,), cfg)}
    base = DataClassDictMixin
    if def_d is not None:
        # a mixin whose format dialect is def_d (the documented way: a mixin's builder params)
        class FmtMixin(DataClassDictMixin):
            __slots__ = ()
            _FmtMixin__mashumaro_builder_params = {"packer": {"dialect": def_d}, "unpacker": {"dialect": def_d}}

        base = FmtMixin
    if variant == "mixin3":
        # three levels: the grandparent declares x plainly, the middle class re-declares it with the options, the leaf inherits it
        G = dataclasses.make_dataclass("G", [("x", ALIAS_T)], bases=(base,), namespace=dict(ns))
        M = dataclasses.make_dataclass("M", [("x", ALIAS_T, dataclasses.field(metadata=md))], bases=(G,), namespace=dict(ns))
        cls = dataclasses.make_dataclass("H", [("y", int, dataclasses.field(default=0))], bases=(M,), namespace=ns)
        return cls, call_d, None, None
    cls = dataclasses.make_dataclass("H", [("x", ALIAS_T, dataclasses.field(metadata=md))], bases=(base,), namespace=ns)
    return cls, call_d, None, None


def setup_e2e(S):
    cls, call_d, enc, dec = build_e2e(S.cells, S.variant, S.pt)
    S.cls, S.call_dialect, S.enc, S.dec = cls, call_d, enc, dec
    return S
