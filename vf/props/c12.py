"""C12 -- discriminated unions pick exactly the tagged class in any definition order (harness side).
A fresh hierarchy is built per path (untraced, from realised selectors); the event history, the cached-registry
pre-state and the tag are solver variables; the last decode also runs traced with a symbolic payload."""
import dataclasses
import typing

from mashumaro import DataClassDictMixin
from mashumaro.codecs.basic import BasicDecoder
from mashumaro.config import ADD_DIALECT_SUPPORT, BaseConfig
from mashumaro.dialect import Dialect
from mashumaro.exceptions import MissingDiscriminatorError, SuitableVariantNotFoundError, InvalidFieldValue
from mashumaro.types import Discriminator

from vf import symval
from vf.hlib import call, cf_guard, fail, notrace, pick, tracing

ORDER = ["A", "B", "C"]          # C derives from A
PARENT = {"A": "Base", "B": "Base", "C": "A"}
TAG = {"A": "a", "B": 0, "C": "", "Base": "base"}   # falsy tags are tags too
NULL = "<<present with value None>>"
TAGS = ["a", 0, "", "zz", None, NULL]  # None = tag absent; NULL = key present, JSON null
UNHASH = "<<an unhashable tag value>>"
# "hard" families: an unhashable tag value, and a variant (A, inherited by C) whose __post_init__ rejects x == 13 with a
# KeyError of its own -- an exception raised INSIDE the selected variant must surface as it is, exactly once
TAGS_HARD = ["a", UNHASH, "", None]
POISON_X = 13


def _raising_post_init(self):
    if self.x == POISON_X:
        raise KeyError("rejected by the variant's own __post_init__")


class S_:
    pass


class DX(Dialect):
    pass


class Family:
    def __init__(self, style, supertypes=False, tagger=False, mixin=True, fmt=None, predef=False, dialect=None, two=False,
                 cross=False, ann_extra=False, hard=False):
        """style: config | annotated | codec | nested (Config discriminator on the root, holder field typed with the bare root).
        dialect: None | 'always' | 'alt' (every / every other call passes dialect=DX; classes that can get ADD_DIALECT_SUPPORT).
        two: the holder has a second discriminated field with ANOTHER tagger function, declared first.
        cross: the holder is an ORJSON mixin and calls alternate between from_dict and from_json."""
        self.style, self.supertypes, self.tagger, self.mixin, self.fmt = style, supertypes, tagger, mixin, fmt
        self.predef, self.dialect, self.two, self.cross = predef, dialect, two, cross
        self.ann_extra = ann_extra  # other Annotated metadata precedes the Discriminator
        self.hard = hard
        self.tags = TAGS_HARD if hard else TAGS
        self.calls = 0
        self.classes = {}
        bases = (DataClassDictMixin,) if mixin else ()
        if fmt == "json":
            from mashumaro.mixins.orjson import DataClassORJSONMixin
            bases = (DataClassORJSONMixin,)
        elif fmt == "msgpack":
            from mashumaro.mixins.msgpack import DataClassMessagePackMixin
            bases = (DataClassMessagePackMixin,)
        self.bases = bases
        fn = (lambda cls: cls.__name__.lower()) if tagger else None
        self.disc = Discriminator(field="type", include_subtypes=True, include_supertypes=supertypes, variant_tagger_fn=fn)
        ns = {"type": "base", "__qualname__": "Base", "__module__": __name__}
        cfg = {}
        if dialect:
            cfg["code_generation_options"] = [ADD_DIALECT_SUPPORT]
        if style in ("config", "nested"):
            ns["Config"] = type("Config", (BaseConfig,), dict(cfg, discriminator=Discriminator(
                field="type", include_subtypes=True, variant_tagger_fn=fn)))
        self.classes["Base"] = dataclasses.make_dataclass("Base", [("x", int)], bases=bases, namespace=ns, module=__name__)
        globals()["Base"] = self.classes["Base"]
        self.holder = None
        self.decoder = None
        if style in ("annotated", "nested"):
            ann = self.annotated() if style == "annotated" else self.classes["Base"]
            globals()["Holder"] = None
            hbases = self.bases or (DataClassDictMixin,)
            if cross:
                from mashumaro.mixins.orjson import DataClassORJSONMixin
                hbases = (DataClassORJSONMixin,)
            fields = [("v", ann)]
            if two:
                other = Discriminator(field="type", include_subtypes=True, variant_tagger_fn=lambda cls: cls.__name__.upper())
                fields = [("v", ann), ("u", typing.Optional[typing.Annotated[self.classes["Base"], other]],
                                       dataclasses.field(default=None))]
            hns = {"__qualname__": "Holder", "__module__": __name__}
            if cfg:
                hns["Config"] = type("Config", (BaseConfig,), dict(cfg))
            if two:
                # the field with the other tagger is declared FIRST (kw_only lets the defaulted field precede)
                self.holder = dataclasses.make_dataclass("Holder", [fields[1], fields[0]], bases=hbases, module=__name__,
                                                         namespace=hns, kw_only=True)
            else:
                self.holder = dataclasses.make_dataclass("Holder", fields, bases=hbases, module=__name__, namespace=hns)
            globals()["Holder"] = self.holder

    def define(self, name):
        # module-level style: importable by dotted name, like ordinary user classes (the fresh family of each path rebinds
        # the module attributes; local / non-importable classes are the subject of C17)
        ns = {"type": TAG[name], "__qualname__": name, "__module__": __name__}
        if self.hard and name == "A":
            ns["__post_init__"] = _raising_post_init
        self.classes[name] = dataclasses.make_dataclass(
            name, [("y" + name.lower(), int, dataclasses.field(default=0))], bases=(self.classes[PARENT[name]],), namespace=ns,
            module=__name__)
        globals()[name] = self.classes[name]

    def annotated(self):
        if self.ann_extra:
            return typing.Annotated[self.classes["Base"], "doc", ("other", 1), self.disc]
        return typing.Annotated[self.classes["Base"], self.disc]

    def make_decoder(self):
        self.decoder = BasicDecoder(self.annotated(), default_dialect=DX if self.dialect else None)

    def decode(self, d):
        self.calls += 1
        kw = {}
        if self.dialect == "always" or (self.dialect == "alt" and self.calls % 2 == 1):
            kw["dialect"] = DX
        ident = lambda x: x
        if self.cross:
            if self.calls % 2 == 1:
                return self.holder.from_dict({"v": d}, **kw).v
            return self.holder.from_json({"v": d}, decoder=ident, **kw).v
        if self.fmt:
            meth = {"json": "from_json", "msgpack": "from_msgpack"}[self.fmt]
            if self.style == "config":
                return getattr(self.classes["Base"], meth)(d, decoder=ident, **kw)
            if self.style in ("annotated", "nested"):
                return getattr(self.holder, meth)({"v": d}, decoder=ident, **kw).v
        if self.style == "config":
            return self.classes["Base"].from_dict(d, **kw)
        if self.style in ("annotated", "nested"):
            return self.holder.from_dict({"v": d}, **kw).v
        if self.decoder is None:
            self.make_decoder()
        return self.decoder.decode(d)

    def tag_of(self, cls):
        if self.tagger:
            return cls.__name__.lower()
        return cls.__dict__.get("type")

    def expected(self, tag):
        """('ok', cls) | ('missing',) | ('notfound',)"""
        if tag is None:
            return ("missing",)
        elig = [self.classes[n] for n in ORDER if n in self.classes]
        if self.supertypes and self.style not in ("config", "nested"):
            elig.append(self.classes["Base"])
        hit = [c for c in elig if self.tag_of(c) == tag and type(self.tag_of(c)) is type(tag)]
        if len(hit) == 1:
            return ("ok", hit[0])
        return ("notfound",)


def observe(fam, tag, x):
    d = {"x": x, "ya": x + 1, "yb": x + 2, "yc": x + 3}
    if tag is NULL:
        d["type"] = None
        tag = "<no class carries the tag None>"
    elif tag is UNHASH:
        d["type"] = ["u"]
    elif tag is not None:
        d["type"] = tag
    st, r = call(fam.decode, d)
    want = fam.expected(tag)
    if st == "exc" and isinstance(r, InvalidFieldValue) and fam.style in ("annotated", "nested"):
        r = r.__context__ or r.__cause__ or r  # the holder wraps the variant lookup failure
    if want[0] == "ok" and fam.hard and x == POISON_X and "A" in fam.classes and issubclass(want[1], fam.classes["A"]):
        # the tag is known and the class was selected; what its constructor raises is the outcome
        if st == "ok":
            return "accepted-input-the-variant-rejects"
        if type(r) is not KeyError:
            return "variant-own-error-replaced:%s" % type(r).__name__
        return None
    if want[0] == "ok":
        if st != "ok":
            return "raised:%s" % type(r).__name__
        if type(r) is not want[1]:
            return "wrong-class:%s-for-%s" % (type(r).__name__, want[1].__name__)
        if r.x != x:
            return "payload"
        own = "y" + type(r).__name__.lower()
        if hasattr(r, own) and getattr(r, own) != x + {"ya": 1, "yb": 2, "yc": 3}[own]:
            return "variant-parsed-with-another-class-fields:%s" % type(r).__name__
        return None
    if st == "ok":
        return "accepted-%s" % want[0]
    exp = MissingDiscriminatorError if want[0] == "missing" else SuitableVariantNotFoundError
    if not isinstance(r, exp):
        return "wrong-exception:%s-for-%s" % (type(r).__name__, want[0])
    return None


# ------------------------------------------------------------------ histories
class HistInput(symval.Node):
    def __init__(self, ctx, k, hard=False):
        self.k = k
        self.nev = len(TAGS_HARD if hard else TAGS) + 2
        # event: 0 define next class, 1..n decode tags[e-1], n+1 create decoder
        self.ev = [ctx.new("k", "int", "0 <= $ < %d" % self.nev) for _ in range(k)]
        self.x = ctx.new("i", "int")

    def make(self, env):
        return [pick(env[e], self.nev) for e in self.ev]


class StepInput(symval.Node):
    """inductive step: p classes defined, arbitrary subset of the correct registry entries cached, one lookup, optionally one
    more definition followed by lookups of the new and an old tag"""

    def __init__(self, ctx):
        self.p = ctx.new("n", "int", "0 <= $ <= 3")
        self.cached = [ctx.new("p", "bool") for _ in ORDER]
        self.tag = ctx.new("k", "int", "0 <= $ < 6")
        self.more = ctx.new("b", "bool")
        self.x = ctx.new("i", "int")

    def make(self, env):
        return (pick(env[self.p], 4), [bool(env[c]) for c in self.cached], pick(env[self.tag], 6), bool(env[self.more]))


def make_input_plan(T, variant, k=3, **kw):
    ctx = symval.Ctx()
    if variant == "step":
        return ctx, StepInput(ctx)
    if variant == "nofield":
        return ctx, NoFieldInput(ctx)
    if variant == "nested":
        return ctx, NestedInput(ctx)
    if variant == "twobase":
        return ctx, TwoBaseInput(ctx)
    return ctx, HistInput(ctx, k, hard=kw.get("hard", False))


def setup(T, NODE, CTX, variant, k=3, style="config", supertypes=False, tagger=False, mixin=True, fmt=None, predef=False,
          dialect=None, two=False, cross=False, ann_extra=False, hard=False):
    S = S_()
    S.node, S.ctx, S.variant = NODE, CTX, variant
    S.fam_args = dict(style=style, supertypes=supertypes, tagger=tagger, mixin=mixin, fmt=fmt, predef=predef, dialect=dialect,
                      two=two, cross=cross, ann_extra=ann_extra, hard=hard)
    return S


def run_history(S, events, x_last, x_sym):
    fam = Family(**S.fam_args)
    nxt = 0
    if fam.predef:
        # the whole hierarchy exists before the first call; the history then only orders the lookups
        for n in ORDER:
            fam.define(n)
        nxt = len(ORDER)
    for j, e in enumerate(events):
        last = j == len(events) - 1
        if e == 0:
            if nxt < len(ORDER):
                fam.define(ORDER[nxt])
                nxt += 1
        elif e == len(fam.tags) + 1:
            if fam.style == "codec":
                fam.make_decoder()
        else:
            tag = fam.tags[e - 1]
            bad = observe(fam, tag, 7 + j)
            if not bad and fam.hard:
                bad = observe(fam, tag, POISON_X)
            if bad:
                return fam, "C12/%s" % bad, dict(events=events, at=j, tag=tag, defined=sorted(fam.classes))
            if last:
                return fam, None, (tag,)
    return fam, None, None


def hist_main(S, env):
    events = S.node.make(env)
    with notrace():
        fam, sig, info = run_history(S, events, 0, None)
    if sig:
        return fail(sig, **info)
    if info and fam.expected(info[0])[0] == "ok":
        # the last decode once more, traced, with a symbolic payload (everything it needs is compiled by now); error
        # outcomes were already compared untraced (raising them traced with a symbolic payload trips CrossHair)
        fam.calls -= 1  # same call parity (dialect / entry point) as the untraced run: nothing is compiled under tracing
        bad = observe(fam, info[0], env[S.node.x])
        if bad:
            return fail("C12/%s" % bad, events=events, traced=True)
    return True


def step_main(S, env):
    p, cached, tsel, more = S.node.make(env)
    tag = TAGS[tsel]
    with notrace():
        fam = Family(**S.fam_args)
        for n in ORDER[:p]:
            fam.define(n)
        base = fam.classes["Base"]
        reg = {}
        for n, c in zip(ORDER[:p], cached):
            if c:
                reg[fam.tag_of(fam.classes[n])] = fam.classes[n]
        # pre-state: any subset of the CORRECT entries may already be cached (the representation invariant)
        registry = base.__dict__.get("__mashumaro_subtype_variants__")
        if isinstance(registry, dict):
            registry.clear()
            registry.update(reg)
        # (if a refactoring stores the registry elsewhere the pre-state cannot be injected; the lookups below still run
        # from the registry's natural state, which is a weaker but still sound obligation)
        bad = observe(fam, tag, 5)
        if bad:
            return fail("C12/%s" % bad, defined=ORDER[:p], cached=sorted(reg), tag=tag)
        # invariant preserved: every cached entry maps a tag to the defined class carrying it
        for t, c in (registry.items() if isinstance(registry, dict) else ()):
            if fam.tag_of(c) != t or c not in fam.classes.values():
                return fail("C12/registry-invariant-broken", entry=(t, c))
        if more and p < len(ORDER):
            fam.define(ORDER[p])
            for t2 in (TAG[ORDER[p]], tag):
                bad = observe(fam, t2, 6)
                if bad:
                    return fail("C12/%s" % bad, defined=ORDER[:p + 1], cached=sorted(reg), tag=t2, after_definition=True)
    if fam.expected(tag)[0] == "ok":
        bad = observe(fam, tag, env[S.node.x])
        if bad:
            return fail("C12/%s" % bad, defined=ORDER[:p], tag=tag, traced=True)
    return True


# ------------------------------------------------------------------ no-field mode
class Poison(Exception):
    pass


class NoFieldInput(symval.Node):
    def __init__(self, ctx):
        self.keys = {k: ctx.new("p", "bool") for k in ("ya", "yb", "yc")}
        self.poison = ctx.new("b", "bool")
        self.x = ctx.new("i", "int")
        # definition order: the holder / decoder is created after `hold_at` of the subclasses (A, B, C) exist, and a first
        # (warm-up) call happens when `warm` of them exist (4: no earlier call at all)
        self.hold_at = ctx.sel(4)
        self.warm = ctx.sel(5)

    def make(self, env):
        return ({k: bool(env[v]) for k, v in self.keys.items()}, bool(env[self.poison]),
                pick(env[self.hold_at], 4), pick(env[self.warm], 5))


def build_nofield(style, supertypes, mixin=True, hold_at=0, warm=4):
    """Base(x) <- A(ya required) <- C(yc required); Base <- B(yb required).  A.__post_init__ rejects x == 13 with an
    exception type of its own (a constructor may reject an input with any exception).  The decoder (holder class / codec) is
    created once `hold_at` subclasses exist, a first call is made once `warm` subclasses exist; the rest is defined later."""
    mbases = (DataClassDictMixin,)
    bases = mbases if mixin else ()
    disc = Discriminator(include_subtypes=True, include_supertypes=supertypes)
    ns = lambda q: {"__module__": __name__, "__qualname__": q}
    nsb = ns("NBase")
    if style == "config":
        nsb["Config"] = type("Config", (BaseConfig,), {"discriminator": Discriminator(include_subtypes=True)})
    Base = dataclasses.make_dataclass("NBase", [("x", int)], bases=bases, namespace=nsb)
    globals()["NBase"] = Base
    classes = {"Base": Base}
    box = {}

    def post_init(self):
        if self.x == 13:
            raise Poison(self.x)

    def def_a():
        nsa = ns("NA")
        nsa["__post_init__"] = post_init
        classes["A"] = dataclasses.make_dataclass("NA", [("ya", int)], bases=(Base,), namespace=nsa)
        globals()["NA"] = classes["A"]

    def def_b():
        classes["B"] = dataclasses.make_dataclass("NB", [("yb", int)], bases=(Base,), namespace=ns("NB"))
        globals()["NB"] = classes["B"]

    def def_c():
        classes["C"] = dataclasses.make_dataclass("NC", [("yc", int)], bases=(classes["A"],), namespace=ns("NC"))
        globals()["NC"] = classes["C"]

    def mk_dec():
        if style == "config":
            box["dec"] = Base.from_dict
        elif style == "annotated":
            H = dataclasses.make_dataclass("NHolder", [("v", typing.Annotated[Base, disc])], bases=mbases, namespace=ns("NHolder"))
            globals()["NHolder"] = H
            box["dec"] = lambda d: H.from_dict({"v": d}).v
        else:
            box["dec"] = BasicDecoder(typing.Annotated[Base, disc]).decode

    for i, define in enumerate((def_a, def_b, def_c, None)):
        if i == hold_at:
            mk_dec()
        if i == warm and "dec" in box:
            try:
                box["dec"]({"x": 5})
            except Exception:
                pass
        if define:
            define()
    return classes, box["dec"]


def nofield_main(S, env):
    present, poison, hold_at, warm = S.node.make(env)
    with notrace():
        classes, dec = build_nofield(S.fam_args["style"], S.fam_args["supertypes"], S.fam_args["mixin"], hold_at, warm)
        x = 13 if poison else 5
        d = {"x": x}
        for k, on in present.items():
            if on:
                d[k] = 1
        need = {"A": ["ya"], "B": ["yb"], "C": ["ya", "yc"]}

        def accepts(n):
            if n == "Base":
                return True
            if any(k not in d for k in need[n]):
                return False
            return not (poison and n in ("A", "C"))

        subs = [n for n in ("A", "B", "C") if accepts(n)]
        st, r = call(dec, d)
        if st == "exc" and isinstance(r, InvalidFieldValue) and S.fam_args["style"] == "annotated":
            r = r.__context__ or r
        supert = S.fam_args["supertypes"] and S.fam_args["style"] != "config"
        if subs:
            if st != "ok":
                return fail("C12/no-field:accepting-subclass-not-tried:%s" % type(r).__name__, input=d, accepting=subs, exc=r,
                            hold_at=hold_at, warm=warm)
            if type(r).__name__[1:] not in subs:
                return fail("C12/no-field:wrong-class", input=d, got=type(r).__name__, accepting=subs, hold_at=hold_at, warm=warm)
        elif supert:
            if st != "ok" or type(r) is not classes["Base"]:
                return fail("C12/no-field:supertype-not-used", input=d, got=r)
        else:
            if st == "ok" or not isinstance(r, SuitableVariantNotFoundError):
                return fail("C12/no-field:expected-SuitableVariantNotFoundError", input=d, got=r)
    return True


# ------------------------------------------------------------------ nested discriminated roots
NONMAP = [5, None, "abc", [1], 1.5]


class NestedInput(symval.Node):
    """outer tag in {poly, a, zz, absent}, inner tag in {a (Tri's), zz, absent}; when the first call happens: never before the
    lookup (0), after the nested root exists but before Tri (1), before the nested root itself is defined (2); whether the
    lookup goes through the outer root or straight through the nested root's own from_dict"""

    def __init__(self, ctx):
        self.outer = ctx.sel(4)
        self.inner = ctx.sel(3)
        self.late = ctx.sel(3)
        self.direct = ctx.new("b", "bool")
        self.x = ctx.new("i", "int")
        self.root = ctx.sel(len(NONMAP) + 1)  # 0: a dict as described above; k > 0: the non-mapping root NONMAP[k - 1]

    def make(self, env):
        return (pick(env[self.outer], 4), pick(env[self.inner], 3), pick(env[self.late], 3), pick(env[self.root], len(NONMAP) + 1),
                bool(env[self.direct]))


def build_nested(style, late):
    """QBase(type) <- QA('a'), QBase <- QPoly('poly', its own Config discriminator on 'kind') <- QTri(kind 'a'): the inner
    leaf carries the same tag VALUE as the outer sibling QA, so registries that are not kept apart show"""
    ns = lambda q, **kw: dict({"__module__": __name__, "__qualname__": q}, **kw)
    mb = (DataClassDictMixin,)
    disc = Discriminator(field="type", include_subtypes=True)
    cfg_t = type("Config", (BaseConfig,), {"discriminator": Discriminator(field="type", include_subtypes=True)})
    cfg_k = type("Config", (BaseConfig,), {"discriminator": Discriminator(field="kind", include_subtypes=True)})
    F = dataclasses.field
    Base = dataclasses.make_dataclass("QBase", [("x", int, F(default=0))], bases=mb,
                                      namespace=ns("QBase", **({"Config": cfg_t} if style == "config" else {})))
    globals()["QBase"] = Base
    A = dataclasses.make_dataclass("QA", [("type", str, F(default="a"))], bases=(Base,), namespace=ns("QA"))
    globals()["QA"] = A
    if style == "config":
        dec = Base.from_dict
    elif style == "annotated":
        H = dataclasses.make_dataclass("QHolder", [("v", typing.Annotated[Base, disc])], bases=mb, namespace=ns("QHolder"))
        globals()["QHolder"] = H
        dec = lambda d: H.from_dict({"v": d}).v
    else:
        dec = BasicDecoder(typing.Annotated[Base, disc]).decode

    def warm():
        try:
            dec({"type": "a", "x": 1})
        except Exception:
            pass

    if late == 2:
        warm()  # the outer registry is filled before the nested root exists
    Poly = dataclasses.make_dataclass("QPoly", [("type", str, F(default="poly"))], bases=(Base,), namespace=ns("QPoly", Config=cfg_k))
    globals()["QPoly"] = Poly
    if late == 1:
        warm()
    Tri = dataclasses.make_dataclass("QTri", [("kind", str, F(default="a"))], bases=(Poly,), namespace=ns("QTri"))
    globals()["QTri"] = Tri
    return {"A": A, "Tri": Tri, "Poly": Poly}, dec


def nested_main(S, env):
    outer, inner, late, root, direct = S.node.make(env)
    with notrace():
        classes, dec = build_nested(S.fam_args["style"], late)
        d = {"x": 5}
        if outer < 3:
            d["type"] = ("poly", "a", "zz")[outer]
        if inner < 2:
            d["kind"] = ("a", "zz")[inner]
        if direct:
            # the nested root's own entry point: only its own discriminator matters
            dec = classes["Poly"].from_dict
            want = (classes["Tri"], "notfound", "missing")[inner]
        elif outer == 3:
            want = "missing"
        elif outer == 2:
            want = "notfound"
        elif outer == 1:
            want = classes["A"]
        else:
            want = (classes["Tri"], "notfound", "missing")[inner]
        if root:
            d = NONMAP[root - 1]
            want = "nonmapping"
        st, r = call(dec, d)
        if st == "exc" and isinstance(r, InvalidFieldValue) and S.fam_args["style"] == "annotated":
            r = r.__context__ or r.__cause__ or r
        if want == "nonmapping":
            # a non-mapping argument is a ValueError, as for any other dataclass (wrapped by the holder in annotated style)
            if st == "ok" or type(r) is not ValueError:
                return fail("C12/non-mapping-argument:%s" % (type(r).__name__ if st == "exc" else "accepted"), input=d, got=r)
            return True
        if isinstance(want, type):
            if st != "ok" or type(r) is not want:
                return fail("C12/nested-root:wrong-result", input=d, got=r, want=want.__name__, late=late, direct=direct)
        else:
            exp = MissingDiscriminatorError if want == "missing" else SuitableVariantNotFoundError
            if st == "ok" or type(r) is not exp:
                return fail("C12/nested-root:wrong-exception:%s-for-%s" % (type(r).__name__, want), input=d, got=r, late=late,
                            direct=direct)
        if not direct and not root:
            # afterwards the outer root still resolves its own sibling
            st2, r2 = call(dec, {"type": "a", "x": 2})
            if st2 != "ok" or type(r2) is not classes["A"]:
                return fail("C12/nested-root:outer-registry-polluted", got=r2, late=late)
    return True


# ------------------------------------------------------------------ one Discriminator object, two hierarchies
TB_TAGS = ["v1", "sq", "dog", "zz"]


class TwoBaseInput(symval.Node):
    """tags at the two positions, and an earlier call (none / both 'v1' / ('sq', 'dog'))"""

    def __init__(self, ctx):
        self.t0 = ctx.sel(4)
        self.t1 = ctx.sel(4)
        self.warm = ctx.sel(3)
        self.x = ctx.new("i", "int")

    def make(self, env):
        return pick(env[self.t0], 4), pick(env[self.t1], 4), pick(env[self.warm], 3)


def build_twobase(style):
    """Shape <- Circle('v1'), Square('sq'); Animal <- Cat('v1'), Dog('dog'); ONE Discriminator instance annotates both bases.
    style: tuple (one field typed Tuple[Annotated[Shape, D], Annotated[Animal, D]]) | fields (two fields) | codec"""
    ns = lambda q, **kw: dict({"__module__": __name__, "__qualname__": q}, **kw)
    F = dataclasses.field
    D = Discriminator(field="type", include_subtypes=True)
    mk = lambda name, bases, tag=None: dataclasses.make_dataclass(
        name, [("x", int, F(default=0))] if not tag else [], bases=bases, namespace=ns(name, **({"type": tag} if tag else {})))
    cls = {}
    cls["Shape"] = mk("TShape", ())
    globals()["TShape"] = cls["Shape"]
    cls["Animal"] = mk("TAnimal", ())
    globals()["TAnimal"] = cls["Animal"]
    for name, base, tag in (("Circle", "Shape", "v1"), ("Square", "Shape", "sq"), ("Cat", "Animal", "v1"), ("Dog", "Animal", "dog")):
        cls[name] = mk("T" + name, (cls[base],), tag)
        globals()["T" + name] = cls[name]
    A0, A1 = typing.Annotated[cls["Shape"], D], typing.Annotated[cls["Animal"], D]
    if style == "tuple":
        H = dataclasses.make_dataclass("THolder", [("pair", typing.Tuple[A0, A1])], bases=(DataClassDictMixin,), namespace=ns("THolder"))
        globals()["THolder"] = H
        dec = lambda d0, d1: H.from_dict({"pair": [d0, d1]}).pair
    elif style == "fields":
        H = dataclasses.make_dataclass("THolder", [("s", A0), ("a", A1)], bases=(DataClassDictMixin,), namespace=ns("THolder"))
        globals()["THolder"] = H

        def dec(d0, d1):
            h = H.from_dict({"s": d0, "a": d1})
            return (h.s, h.a)
    else:
        dd = BasicDecoder(typing.Tuple[A0, A1]).decode
        dec = lambda d0, d1: dd([d0, d1])
    return cls, dec


def twobase_main(S, env):
    t0, t1, warm = S.node.make(env)
    with notrace():
        cls, dec = build_twobase(S.fam_args["style"])
        if warm:
            w = (("v1", "v1"), ("sq", "dog"))[warm - 1]
            call(dec, {"type": w[0], "x": 1}, {"type": w[1], "x": 2})
        want0 = {"v1": cls["Circle"], "sq": cls["Square"]}.get(TB_TAGS[t0])
        want1 = {"v1": cls["Cat"], "dog": cls["Dog"]}.get(TB_TAGS[t1])
        st, r = call(dec, {"type": TB_TAGS[t0], "x": 3}, {"type": TB_TAGS[t1], "x": 4})
        if want0 is None or want1 is None:
            if st == "ok":
                return fail("C12/two-bases:accepted-foreign-tag", tags=(TB_TAGS[t0], TB_TAGS[t1]), got=r, warm=warm)
            e = r
            while isinstance(e, InvalidFieldValue) and (e.__context__ or e.__cause__):
                e = e.__context__ or e.__cause__
            if type(e) is not SuitableVariantNotFoundError:
                return fail("C12/two-bases:wrong-exception:%s" % type(e).__name__, tags=(TB_TAGS[t0], TB_TAGS[t1]), warm=warm)
            return True
        if st != "ok":
            return fail("C12/two-bases:raised:%s" % type(r).__name__, tags=(TB_TAGS[t0], TB_TAGS[t1]), warm=warm, exc=r)
        if type(r[0]) is not want0 or type(r[1]) is not want1 or r[0].x != 3 or r[1].x != 4:
            return fail("C12/two-bases:wrong-class", tags=(TB_TAGS[t0], TB_TAGS[t1]), got=r, warm=warm)
    return True


def main(S, env):
    if S.variant == "twobase":
        return twobase_main(S, env)
    if S.variant == "nested":
        return nested_main(S, env)
    if S.variant == "nofield":
        return nofield_main(S, env)
    return step_main(S, env) if S.variant == "step" else hist_main(S, env)


def twin(S, env):
    if S.variant == "twobase":
        t0, t1, warm = S.node.make(env)
        if not (t0 == 1 and t1 == 0 and warm == 2):
            return True
        return not main(S, env)
    if S.variant == "nested":
        outer, inner, late, root, direct = S.node.make(env)
        if not (outer == 0 and inner == 0 and late == 2 and root == 0 and not direct):
            return True
        return not main(S, env)
    if S.variant == "nofield":
        present, poison, hold_at, warm = S.node.make(env)
        if not (poison and present["yb"] and present["ya"] and hold_at == 1 and warm == 2):
            return True
        return not main(S, env)
    if S.variant == "step":
        p, cached, tsel, more = S.node.make(env)
        if not (p == 2 and more and tsel == 2 and cached[0] and not cached[1]):
            return True
    else:
        ev = S.node.make(env)
        # define, decode 'a', define, ..., ends with a decode of a known tag
        if S.fam_args.get("predef"):
            if not (ev[0] == 1 and ev[-1] == 3):
                return True
            return not main(S, env)
        if not (ev[0] == 0 and ev[-1] in (1, 2) and 0 in ev[1:]) and len(ev) > 2:
            return True
        if len(ev) <= 2 and not (ev[0] == 0 and ev[-1] == 1):
            return True
    return not main(S, env)
