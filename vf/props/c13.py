"""C13 -- dialects are isolated per call and honoured uniformly by every codec (harness side)."""
import base64
import dataclasses
import datetime
import typing
import uuid

from mashumaro import DataClassDictMixin, pass_through
from mashumaro.codecs.basic import BasicDecoder, BasicEncoder
from mashumaro.config import ADD_DIALECT_SUPPORT, BaseConfig
from mashumaro.core.const import Sentinel
from mashumaro.dialect import Dialect

from vf import oracle, symval
from vf.hlib import call, fail, notrace, pick
from vf.props.common import deep_eq

MISSING = Sentinel.MISSING


class S_:
    pass


def _ser_date(d):
    return d.toordinal()


def _de_date(v):
    return datetime.date.fromordinal(v)


def _ser_int(v):
    return v + 1000


def _de_int(v):
    return v - 1000


class D1(Dialect):
    serialization_strategy = {datetime.date: {"serialize": _ser_date, "deserialize": _de_date}}


class D2(Dialect):
    serialization_strategy = {int: {"serialize": _ser_int, "deserialize": _de_int}}
    omit_none = True


class D3(Dialect):
    serialize_by_alias = True
    omit_default = True


POOL = [None, D1, D2, D3]
REF_CACHE = {}


def build_family(default_dialect=None):
    """fresh Parent <- C <- Sub with dialect support; default_dialect goes into Config.dialect of every class"""
    cfg = {"code_generation_options": [ADD_DIALECT_SUPPORT], "aliases": {"o": "O"}}
    if default_dialect is not None:
        cfg["dialect"] = default_dialect
    F = dataclasses.field

    def ns(q):
        return {"Config": type("Config", (BaseConfig,), dict(cfg)), "__module__": __name__, "__qualname__": q}

    from mashumaro.mixins.msgpack import DataClassMessagePackMixin

    Parent = dataclasses.make_dataclass("Parent", [("a", int)], bases=(DataClassMessagePackMixin,), namespace=ns("Parent"))
    C = dataclasses.make_dataclass("C", [("d", datetime.date, F(default=datetime.date(2000, 1, 1))),
                                         ("o", typing.Optional[int], F(default=None)),
                                         ("b", bytes, F(default=b"\x00\x01")),
                                         ("l", typing.List[int], F(default_factory=list)),
                                         ("nxt", typing.Optional[typing.Self], F(default=None))], bases=(Parent,), namespace=ns("C"))
    Sub = dataclasses.make_dataclass("Sub", [("z", int, F(default=0))], bases=(C,), namespace=ns("Sub"))
    return {"Parent": Parent, "C": C, "Sub": Sub}


def sample(cls, a=1, d=None, o=None, depth=1):
    kw = {"a": a}
    if cls.__name__ in ("C", "Sub"):
        kw["d"] = d or datetime.date(2020, 2, 3)
        kw["o"] = o
        if depth:
            kw["nxt"] = sample(cls, a + 1, datetime.date(2019, 1, 1), 5, depth - 1)
    return cls(**kw)


# ------------------------------------------------------------------ (a) isolation
class IsoInput(symval.Node):
    def __init__(self, ctx, k, small=False):
        # pre-event: 0 = nothing, else (class, dialect, direction)
        self.opts = [None] + [(c, dj, dr) for c in (("C", "Sub") if small else ("Parent", "C", "Sub"))
                              for dj in ((1, 2) if small else (1, 2, 3)) for dr in ("to", "from", "to_fmt", "from_fmt")]
        self.ev = [ctx.new("k", "int", "0 <= $ < %d" % len(self.opts)) for _ in range(k)]
        self.final_d = ctx.new("k", "int", "0 <= $ < 4")
        self.final_cls = ctx.new("k", "int", "0 <= $ < 2")
        self.a = ctx.new("i", "int")
        self.o_none = ctx.new("z", "bool")
        self.o = ctx.new("i", "int")
        self.dsel = ctx.new("k", "int", "0 <= $ < %d" % (1 if small else 2))

    def make(self, env):
        evs = [self.opts[pick(env[e], len(self.opts))] for e in self.ev]
        return evs, pick(env[self.final_d], 4), ("C", "Sub")[pick(env[self.final_cls], 2)]


def make_input_plan(T, variant, k=1, small=False, shared=False, **kw):
    ctx = symval.Ctx()
    if variant.startswith("iso"):
        return ctx, IsoInput(ctx, k, small)
    if variant == "merge":
        return ctx, MergeInput(ctx, "opts")
    if variant == "merge_s":
        return ctx, MergeInput(ctx, "strats")
    if variant.startswith("uni"):
        return ctx, UniInput(ctx)
    raise KeyError(variant)


def do_event(fam, ev):
    if ev is None:
        return
    cname, dj, dr = ev
    cls = fam[cname]
    x = sample(cls)
    kw = {"dialect": POOL[dj]} if POOL[dj] is not None else {}
    if dr == "to":
        x.to_dict(**kw)
    elif dr == "to_fmt":
        x.to_msgpack(encoder=ident, **kw)
    elif dr == "from_fmt":
        if dj not in REF_CACHE:
            REF_CACHE[dj] = build_family(POOL[dj])
        d = sample(REF_CACHE[dj][cname]).to_msgpack(encoder=ident)
        cls.from_msgpack(d, decoder=ident, **kw)
    else:
        if dj not in REF_CACHE:
            REF_CACHE[dj] = build_family(POOL[dj])
        d = sample(REF_CACHE[dj][cname]).to_dict()
        cls.from_dict(d, **kw)


def iso_main(S, env):
    evs, dj, cname = S.node.make(env)
    direction = {"iso_to": "to", "iso_from": "from", "iso_tofmt": "to_fmt", "iso_fromfmt": "from_fmt"}[S.variant]

    def enc(obj, **k):
        return obj.to_msgpack(encoder=ident, **k) if direction.endswith("fmt") else obj.to_dict(**k)

    def dec(cls, doc, **k):
        return cls.from_msgpack(doc, decoder=ident, **k) if direction.endswith("fmt") else cls.from_dict(doc, **k)
    D = POOL[dj]
    dates = [datetime.date(2021, 3, 4), datetime.date(2000, 1, 1)]
    date = dates[pick(env[S.node.dsel], 2)] if S.node.dsel else dates[0]
    with notrace():
        fam = build_family()
        # reference classes are only ever called without a dialect argument, so one instance per default dialect can be
        # shared by all paths of this process: ref = class built with D as its default dialect, plain = untouched twin
        if dj not in REF_CACHE:
            REF_CACHE[dj] = build_family(D)
        if "plain" not in REF_CACHE:
            REF_CACHE["plain"] = build_family()
        ref = REF_CACHE[dj]
        plain = REF_CACHE["plain"]
        try:
            for ev in evs:
                do_event(fam, ev)
        except Exception as e:
            return fail("C13/earlier-use-raised:%s" % type(e).__name__, events=evs, exc=e)
        # dry run of the final call (it may compile a dialect-specific method), on concrete data
        kw = {"dialect": D} if D is not None else {}
        x0 = sample(fam[cname])
        r0 = sample(ref[cname])
        if direction.startswith("to"):
            st, d0 = call(lambda: enc(x0, **kw))
            if st == "exc":
                return fail("C13/call-with-dialect-raised:%s" % type(d0).__name__, events=evs, dialect=D, exc=d0)
            if d0 != enc(r0):
                return fail("C13/dialect-call-differs-from-default-dialect-class", events=evs, dialect=D, got=d0, want=enc(r0))
        else:
            st, y0 = call(lambda: dec(fam[cname], enc(r0), **kw))
            if st == "exc":
                return fail("C13/call-with-dialect-raised:%s" % type(y0).__name__, events=evs, dialect=D, exc=y0)
            r0 = dec(ref[cname], enc(r0))
            if dataclasses.asdict(y0) != dataclasses.asdict(r0):
                return fail("C13/dialect-call-differs-from-default-dialect-class", events=evs, dialect=D, got=y0, want=r0)
    # traced observation with symbolic data
    a = env[S.node.a]
    o = None if env[S.node.o_none] else env[S.node.o]
    def mk(f):
        inner = sample(f[cname], 7, datetime.date(2018, 3, 4), None, 0)
        if cname == "C":
            return f[cname](a=a, d=date, o=o, nxt=inner)
        return f[cname](a=a, d=date, o=o, z=3, nxt=inner)

    x, r, p = mk(fam), mk(ref), mk(plain)
    if direction.startswith("to"):
        st, got = call(lambda: enc(x, **kw))
        want = enc(r)
        if st == "exc" or list(got.items()) != list(want.items()):
            return fail("C13/dialect-call-differs-from-default-dialect-class", events=evs, dialect=D, got=got, want=want)
        # a list must be a copy unless the dialect in force says otherwise (dict format: never by reference here)
        if not direction.endswith("fmt") and got.get("l") is x.l:
            return fail("C13/dialect-call-shares-list-like-another-format", events=evs, dialect=D)
    else:
        doc = enc(r)
        rr = dec(ref[cname], doc)
        st, got = call(lambda: dec(fam[cname], doc, **kw))
        if st == "exc" or dataclasses.asdict(got) != dataclasses.asdict(rr):
            return fail("C13/dialect-call-differs-from-default-dialect-class", events=evs, dialect=D, got=got, want=rr, doc=doc)
    # such calls never alter the default behaviour
    st, got = call(x.to_dict)
    want = p.to_dict()
    if st == "exc" or list(got.items()) != list(want.items()):
        return fail("C13/default-behaviour-altered:to", events=evs, dialect=D, got=got, want=want)
    st, got = call(lambda: fam[cname].from_dict(want))
    pw = plain[cname].from_dict(want)
    if st == "exc" or dataclasses.asdict(got) != dataclasses.asdict(pw):
        return fail("C13/default-behaviour-altered:from", events=evs, dialect=D, got=got, want=pw)
    return True


# ------------------------------------------------------------------ (b) Dialect.merge
OPTS = ("serialize_by_alias", "namedtuple_as_dict", "omit_none", "omit_default")
TRI = (MISSING, False, True)


BASES = [  # the receiving (format) dialect: nothing set / TOML-like / everything set the other way
    {"serialize_by_alias": MISSING, "namedtuple_as_dict": MISSING, "omit_none": MISSING, "omit_default": MISSING,
     "no_copy_collections": MISSING},
    {"serialize_by_alias": MISSING, "namedtuple_as_dict": MISSING, "omit_none": True, "omit_default": MISSING,
     "no_copy_collections": (list, dict)},
    {"serialize_by_alias": True, "namedtuple_as_dict": True, "omit_none": False, "omit_default": True,
     "no_copy_collections": ()},
]


class MergeInput(symval.Node):
    def __init__(self, ctx, what="opts"):
        # the options and the strategy maps do not interact in merge(): decomposed into two obligations
        self.what = what
        self.base = ctx.new("k", "int", "0 <= $ < %d" % len(BASES))
        if what == "opts":
            self.user = {o: ctx.new("k", "int", "0 <= $ < 3") for o in OPTS}
            self.nc_user = ctx.new("k", "int", "0 <= $ < 3")
            self.s_base = self.s_user = None
            # whether the options are set in the dialect's own class body or inherited from a parent dialect
            self.inh_user = ctx.new("b", "bool")
            self.inh_base = ctx.new("b", "bool")
        else:
            self.user = None
            self.s_base = [ctx.new("p", "bool") for _ in range(2)]
            self.s_user = [ctx.new("p", "bool") for _ in range(2)]

    def inherited(self, env):
        if self.what != "opts":
            return False, False
        return bool(env[self.inh_user]), bool(env[self.inh_base])

    def make(self, env):
        b = dict(BASES[pick(env[self.base], len(BASES))])
        ncs = (MISSING, (), (list, dict))
        if self.what == "opts":
            u = {o: TRI[pick(env[v], 3)] for o, v in self.user.items()}
            u["no_copy_collections"] = ncs[pick(env[self.nc_user], 3)]
            return b, u, [True, False], [True, True]
        u = {o: MISSING for o in OPTS}
        u["no_copy_collections"] = MISSING
        u["omit_default"] = True
        return b, u, [bool(env[x]) for x in self.s_base], [bool(env[x]) for x in self.s_user]


def merge_main(S, env):
    b, u, sb, su = S.node.make(env)
    with notrace():
        keys = (int, datetime.date)
        bs = {k: {"serialize": _ser_int, "deserialize": _de_int} for k, on in zip(keys, sb) if on}
        us = {k: {"serialize": _ser_date} for k, on in zip(keys, su) if on}
        inh_u, inh_b = S.node.inherited(env)
        if inh_b:
            B = type("B", (type("BParent", (Dialect,), dict(b)),), dict(serialization_strategy=bs))
        else:
            B = type("B", (Dialect,), dict(b, serialization_strategy=bs))
        if inh_u:
            U = type("U", (type("UParent", (Dialect,), dict(u)),), dict(serialization_strategy=us))
        else:
            U = type("U", (Dialect,), dict(u, serialization_strategy=us))
        st, M = call(B.merge, U)
        if st == "exc":
            return fail("C13/merge-raised:%s" % type(M).__name__, base=b, user=u, exc=M)
        for o in OPTS + ("no_copy_collections",):
            want = u[o] if u[o] is not MISSING else b[o]
            got = getattr(M, o, "<absent>")
            if got is not want and got != want:
                return fail("C13/merge-drops-option", option=o, base=b[o], user=u[o], got=got, inherited=(inh_u, inh_b))
        for k in keys:
            want = dict(bs.get(k, {}))
            want.update(us.get(k, {}))
            got = M.serialization_strategy.get(k)
            if (got or {}) != want:
                return fail("C13/merge-strategy-wrong", key=k, got=got, want=want)
        # merge must not modify its operands
        if B.serialization_strategy != bs or U.serialization_strategy != us:
            return fail("C13/merge-mutates-operand")
        for k in keys:
            if k in bs and bs[k] != {"serialize": _ser_int, "deserialize": _de_int}:
                return fail("C13/merge-mutates-operand-strategy", key=k)
    return True


# ------------------------------------------------------------------ (c) uniformity across codecs
def ident(x, *a, **kw):
    return x


class _Shim:
    def __init__(self, **kw):
        self.__dict__.update(kw)


def canonical(x, drop_none):
    """the logical document: format-native values rendered as in the basic form"""
    if isinstance(x, dict):
        out = {}
        for k, v in x.items():
            if drop_none and v is None:
                continue
            out[k] = canonical(v, drop_none)
        return out
    if isinstance(x, (list, tuple)):
        return [canonical(v, drop_none) for v in x]
    if isinstance(x, (datetime.datetime, datetime.date, datetime.time)):
        return x.isoformat()
    if isinstance(x, uuid.UUID):
        return str(x)
    if isinstance(x, (bytes, bytearray)):
        return base64.encodebytes(bytes(x)).decode()
    return x


class NTU(typing.NamedTuple):
    p: int
    q: str = "q"


@dataclasses.dataclass
class UT:
    a: int
    z: int = dataclasses.field(default=5, metadata={"alias": "Z"})
    d: datetime.date = datetime.date(2000, 1, 1)
    o: typing.Optional[int] = None
    l: typing.List[int] = dataclasses.field(default_factory=list)
    nt: NTU = NTU(1, "q")
    b: bytes = b"x"


UNI_DIALECTS = {
    "none": None,
    "omit_none": type("UOn", (Dialect,), {"omit_none": True}),
    "omit_default": type("UOd", (Dialect,), {"omit_default": True}),
    "by_alias": type("UAl", (Dialect,), {"serialize_by_alias": True}),
    "nt_dict": type("UNt", (Dialect,), {"namedtuple_as_dict": True}),
    "no_copy": type("UNc", (Dialect,), {"no_copy_collections": (list,)}),
    "strategy": type("USt", (Dialect,), {"serialization_strategy": {int: {"serialize": _ser_int, "deserialize": _de_int}}}),
    "alias+omit": type("UAO", (Dialect,), {"serialize_by_alias": True, "omit_default": True, "omit_none": True}),
    "nt+strategy": type("UNS", (Dialect,), {"namedtuple_as_dict": True,
                                             "serialization_strategy": {datetime.date: {"serialize": _ser_date, "deserialize": _de_date}}}),
}
for _n, _d in UNI_DIALECTS.items():
    if _d is not None:
        globals()[_d.__name__] = _d


class UniInput(symval.Node):
    def __init__(self, ctx):
        self.a = ctx.new("i", "int")
        self.o_none = ctx.new("z", "bool")
        self.o = ctx.new("i", "int")
        self.n = ctx.new("n", "int", "0 <= $ <= 1")
        self.e = ctx.new("i", "int")
        self.dsel = ctx.new("k", "int", "0 <= $ < 2")
        self.p = ctx.new("i", "int")
        self.qdef = ctx.new("b", "bool")

    def make(self, env):
        d = [datetime.date(2000, 1, 1), datetime.date(2022, 5, 6)][pick(env[self.dsel], 2)]
        l = [env[self.e]] if pick(env[self.n], 2) == 1 else []
        return UT(a=env[self.a], z=env[self.p], d=d, o=None if env[self.o_none] else env[self.o], l=l,
                  nt=NTU(env[self.p], "q" if env[self.qdef] else "zz"), b=b"x")


def build_format_codecs(fmt, D):
    import importlib

    if fmt == "json":
        from mashumaro.codecs.json import JSONDecoder, JSONEncoder
        return JSONEncoder(UT, default_dialect=D, post_encoder_func=ident).encode, \
            JSONDecoder(UT, default_dialect=D, pre_decoder_func=ident).decode
    if fmt == "yaml":
        from mashumaro.codecs.yaml import YAMLDecoder, YAMLEncoder
        return YAMLEncoder(UT, default_dialect=D, post_encoder_func=ident).encode, \
            YAMLDecoder(UT, default_dialect=D, pre_decoder_func=ident).decode
    # orjson / msgpack / toml codecs bind the C transport at construction: a shim module object stands in for it
    mod = importlib.import_module("mashumaro.codecs." + fmt)
    if fmt == "orjson":
        saved = mod.orjson
        mod.orjson = _Shim(dumps=ident, loads=ident)
        try:
            return mod.ORJSONEncoder(UT, default_dialect=D).encode, mod.ORJSONDecoder(UT, default_dialect=D).decode
        finally:
            mod.orjson = saved
    if fmt == "toml":
        s1, s2 = mod.tomli_w, mod.tomllib
        mod.tomli_w = _Shim(dumps=ident)
        mod.tomllib = _Shim(loads=ident)
        try:
            return mod.TOMLEncoder(UT, default_dialect=D).encode, mod.TOMLDecoder(UT, default_dialect=D).decode
        finally:
            mod.tomli_w, mod.tomllib = s1, s2
    if fmt == "msgpack":
        return mod.MessagePackEncoder(UT, default_dialect=D, post_encoder_func=ident).encode, \
            mod.MessagePackDecoder(UT, default_dialect=D, pre_decoder_func=ident).decode
    raise KeyError(fmt)


def uni_main(S, env):
    v = S.node.make(env)
    st, basic = call(S.basic_enc, v)
    if st == "exc":
        raise AssertionError("basic encoder failed %r" % (basic,))
    st, doc = call(S.enc, v)
    if st == "exc":
        return fail("C13/format-encode-raised:%s:%s" % (S.fmt, type(doc).__name__), dialect=S.dname, value=v, exc=doc)
    drop = S.fmt == "toml"
    a, b = canonical(doc, drop), canonical(basic, drop)
    if not oracle.exact_eq(a, b):
        return fail("C13/format-ignores-dialect-option:%s:%s" % (S.fmt, S.dname), value=v, format_doc=doc, basic_doc=basic)
    # what the real transport hands to the decoder: orjson.loads yields text for date/UUID values (OrjsonDialect only
    # serializes them natively), msgpack and tomllib return the native objects
    dec_in = canonical(doc, False) if S.fmt == "orjson" else doc
    st, back = call(S.dec, dec_in)
    if st == "exc":
        return fail("C13/format-decode-raised:%s:%s" % (S.fmt, type(back).__name__), dialect=S.dname, doc=doc, exc=back)
    st, bback = call(S.basic_dec, basic)
    if st == "ok" and not deep_eq(back, bback):
        return fail("C13/format-decode-differs:%s:%s" % (S.fmt, S.dname), doc=doc, got=back, want=bback)
    return True


def setup(T, NODE, CTX, variant, k=1, fmt=None, dname=None, small=False, shared=False):
    S = S_()
    S.node, S.ctx, S.variant = NODE, CTX, variant
    if variant.startswith("uni"):
        S.fmt, S.dname = fmt, dname
        D = UNI_DIALECTS[dname]
        if shared:
            # one user dialect shared by codecs of several formats in one process: the codecs of every OTHER format are
            # constructed first (whatever is cached per user dialect must not carry another format's requirements)
            for f2 in ("orjson", "msgpack", "toml", "json", "yaml"):
                if f2 != fmt:
                    build_format_codecs(f2, D)
        S.enc, S.dec = build_format_codecs(fmt, D)
        S.basic_enc = BasicEncoder(UT, default_dialect=D).encode
        S.basic_dec = BasicDecoder(UT, default_dialect=D).decode
    return S


def main(S, env):
    if S.variant.startswith("iso"):
        return iso_main(S, env)
    if S.variant in ("merge", "merge_s"):
        return merge_main(S, env)
    return uni_main(S, env)


def twin(S, env):
    if S.variant.startswith("iso"):
        evs, dj, cname = S.node.make(env)
        if dj != 2 or any(e is None for e in evs) or env[S.node.o_none]:
            return True
    elif S.variant in ("merge", "merge_s"):
        b, u, sb, su = S.node.make(env)
        if u["omit_none"] is not MISSING or b["omit_none"] is not True or not (sb[0] and su[0]):
            return True
    else:
        if env[S.node.n] != 1 or env[S.node.o_none]:
            return True
    return not main(S, env)
