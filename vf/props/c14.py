"""C14 -- behaviour is independent of compilation timing and call order (harness side).
Per path: a fresh family in the chosen compilation mode and a fresh eager twin are built untraced; the first k-1
operations of the solver-chosen history (and a dry run of the k-th) run untraced on concrete data on both -- that is where
first-use compilation happens, in the chosen order -- and must have identical outcomes; the k-th runs traced on symbolic
data on both and must agree for all values.  Thread schedules are outside (CrossHair is single-threaded)."""
import dataclasses
import datetime
import sys
import typing

from mashumaro.config import ADD_DIALECT_SUPPORT, BaseConfig
from mashumaro.dialect import Dialect
from mashumaro.mixins.orjson import DataClassORJSONMixin
from mashumaro.mixins.msgpack import DataClassMessagePackMixin

from vf import symval
from vf.hlib import call, fail, notrace, pick

MOD = sys.modules[__name__]


def _ser_date(d):
    return d.toordinal()


def _de_date(v):
    return datetime.date.fromordinal(v)


class D1(Dialect):
    serialization_strategy = {datetime.date: {"serialize": _ser_date, "deserialize": _de_date}}
    omit_none = True


def ident(x, **kw):
    # the transport stub reports the options it was given, so that a dropped orjson_options is visible
    if kw:
        return (x, sorted(kw.items()))
    return x


class S_:
    pass


T = typing.TypeVar("T")


LOG = []


def _cname(cls):
    return cls.__name__.split("[")[0].rstrip("LE_0123456789")


def _pre_ser(self):
    LOG.append(("pre_ser", _cname(type(self))))
    return self


def _post_ser(self, d):
    LOG.append(("post_ser", _cname(type(self))))
    return d


def _pre_de(cls, d):
    LOG.append(("pre_de", _cname(cls)))
    return d


def _post_de(cls, obj):
    LOG.append(("post_de", _cname(type(obj))))
    return obj


def build(mode, tag, mixin=DataClassORJSONMixin):
    """Family: Inner, Outer(Inner, List[Inner], Optional[int]), Sub(Outer), Gen[T], Node(self-referencing).
    mode: eager | lazy | postponed (Outer/Node refer to classes by name before they exist)."""
    F = dataclasses.field
    cfg = {"code_generation_options": [ADD_DIALECT_SUPPORT]}
    if mode == "lazy":
        cfg["lazy_compilation"] = True

    def ns(q):
        # every class logs its four hooks: the hook trace is part of the outcome that must not depend on compilation timing
        return {"Config": type("Config", (BaseConfig,), dict(cfg)), "__module__": __name__, "__qualname__": q + tag,
                "__pre_serialize__": _pre_ser, "__post_serialize__": _post_ser,
                "__pre_deserialize__": classmethod(_pre_de), "__post_deserialize__": classmethod(_post_de)}

    names = {}

    def reg(cls, name):
        names[name] = cls
        setattr(MOD, name + tag, cls)
        return cls

    def mk(name, fields, bases=(mixin,)):
        return reg(dataclasses.make_dataclass(name + tag, fields, bases=bases, namespace=ns(name)), name)

    inner_fields = [("a", int), ("d", datetime.date, F(default=datetime.date(2000, 1, 1))), ("b", bytes, F(default=b"\x00x"))]
    if mode == "postponed":
        # Outer first, with forward references that cannot be resolved yet
        if hasattr(MOD, "Inner" + tag):
            delattr(MOD, "Inner" + tag)
        mk("Outer", [("i", "Inner" + tag), ("l", "typing.List[Inner%s]" % tag, F(default_factory=list)),
                     ("o", typing.Optional[int], F(default=None))])
        mk("Sub", [("z", int, F(default=0))], bases=(names["Outer"],))
        mk("Inner", inner_fields)
    else:
        mk("Inner", inner_fields)
        mk("Outer", [("i", names["Inner"]), ("l", typing.List[names["Inner"]], F(default_factory=list)),
                     ("o", typing.Optional[int], F(default=None))])
        mk("Sub", [("z", int, F(default=0))], bases=(names["Outer"],))
    # nested classes WITHOUT dialect support (a plain dataclass and a mixin whose Config lacks the option) inside a class with it
    def mk_nosup():
        reg(dataclasses.make_dataclass("Plain" + tag, [("a", int), ("d", datetime.date, F(default=datetime.date(2000, 1, 1)))],
                                       namespace={"__module__": __name__, "__qualname__": "Plain" + tag}), "Plain")
        cfg2 = {k: v for k, v in cfg.items() if k != "code_generation_options"}
        reg(dataclasses.make_dataclass("NoSup" + tag, [("a", int), ("b", bytes, F(default=b"\x00x"))], bases=(mixin,),
                                       namespace={"Config": type("Config", (BaseConfig,), cfg2), "__module__": __name__,
                                                  "__qualname__": "NoSup" + tag}), "NoSup")

    if mode == "postponed":
        for nm in ("Plain", "NoSup"):
            if hasattr(MOD, nm + tag):
                delattr(MOD, nm + tag)
        mk("Mixed", [("p", "Plain" + tag), ("n", "typing.Optional[NoSup%s]" % tag, F(default=None))])
        mk_nosup()
    else:
        mk_nosup()
        mk("Mixed", [("p", names["Plain"]), ("n", typing.Optional[names["NoSup"]], F(default=None))])
    mk("Node", [("v", int), ("nxt", "typing.Optional[Node%s]" % tag, F(default=None))])
    g = dataclasses.make_dataclass("Gen" + tag, [("g", T), ("gs", typing.List[T], F(default_factory=list))],
                                   bases=(typing.Generic[T], mixin), namespace=ns("Gen"))
    reg(g, "Gen")
    holder = mk("Holder", [("gi", g[int]), ("gd", g[datetime.date])])
    return names


COUNTER = [0]
TARGETS = ["Outer", "Inner", "Sub", "Node", "Holder", "Mixed"]
METHODS = ["to_dict", "from_dict", "to_fmt", "from_fmt"]
DIALECTS = [None, D1]
OPS = [(t, m, dj) for t in TARGETS for m in METHODS for dj in (0, 1)]
OPS_QUICK = ([(t, m, dj) for t in ("Outer", "Mixed") for m in METHODS for dj in (0, 1)]
             + [("Holder", m, dj) for m in ("to_dict", "from_fmt") for dj in (0, 1)])


def concrete(names, target, a=1, o=None, date=None, n=1):
    d = date or datetime.date(2021, 2, 3)
    I = names["Inner"]
    if target == "Inner":
        return I(a=a, d=d)
    if target == "Outer":
        return names["Outer"](i=I(a=a, d=d), l=[I(a=a + 1)] * n, o=o)
    if target == "Sub":
        return names["Sub"](i=I(a=a, d=d), l=[I(a=a + 1)] * n, o=o, z=a)
    if target == "Mixed":
        return names["Mixed"](p=names["Plain"](a=a, d=d), n=names["NoSup"](a=a + 1) if n else None)
    if target == "Node":
        return names["Node"](v=a, nxt=names["Node"](v=a + 1) if n else None)
    return names["Holder"](gi=names["Gen"](g=a, gs=[a] * n), gd=names["Gen"](g=d, gs=[d] * n))


def run_op(names, op, x, fmt):
    """-> ('ok', canonical result) | ('exc', type name)"""
    del LOG[:]
    st, r = _run_op(names, op, x, fmt)
    return (st, r, tuple(LOG))


def _run_op(names, op, x, fmt):
    target, method, dj = op
    cls = names[target]
    kw = {"dialect": DIALECTS[dj]} if DIALECTS[dj] is not None else {}
    to_fmt, from_fmt = fmt
    if method == "to_dict":
        st, r = call(lambda: x.to_dict(**kw))
    elif method == "to_fmt":
        if to_fmt == "to_jsonb":
            st, r = call(lambda: x.to_jsonb(encoder=ident, orjson_options=1024 + 8, **kw))
        else:
            st, r = call(lambda: getattr(x, to_fmt)(encoder=ident, **kw))
    else:
        st, doc = call(lambda: x.to_dict(**kw))
        if st == "exc":
            return ("exc", "encode-for-input:" + type(doc).__name__)
        if method == "from_dict":
            st, r = call(lambda: cls.from_dict(doc, **kw))
        else:
            st, r = call(lambda: getattr(cls, from_fmt)(doc, decoder=ident, **kw))
        if st == "ok":
            r = (type(r).__name__.rstrip("LE_0123456789"), dataclasses.asdict(r))
    if st == "exc":
        return ("exc", type(r).__name__)
    return ("ok", r)


class HistInput(symval.Node):
    def __init__(self, ctx, k, alphabet=None):
        self.alphabet = alphabet or OPS
        self.ops = [ctx.new("k", "int", "0 <= $ < %d" % len(self.alphabet)) for _ in range(k)]
        self.a = ctx.new("i", "int")
        self.o_none = ctx.new("z", "bool")
        self.o = ctx.new("i", "int")
        self.n = ctx.new("n", "int", "1 <= $ <= 1")

    def make(self, env):
        return [self.alphabet[pick(env[o], len(self.alphabet))] for o in self.ops]


OPS_TINY = [(t, m, dj) for t in ("Outer", "Mixed") for m in ("to_dict", "to_fmt", "from_fmt") for dj in (0, 1)]


def make_input_plan(T_, variant, k=2, small=False, **kw):
    ctx = symval.Ctx()
    return ctx, HistInput(ctx, k, {True: OPS_QUICK, False: OPS, "tiny": OPS_TINY}[small])


def setup(T_, NODE, CTX, variant, k=2, mode="lazy", fmt="orjson", small=False):
    S = S_()
    S.node, S.ctx, S.variant, S.mode = NODE, CTX, variant, mode
    S.mixin = DataClassORJSONMixin if fmt == "orjson" else DataClassMessagePackMixin
    S.fmt = ("to_jsonb", "from_json") if fmt == "orjson" else ("to_msgpack", "from_msgpack")
    return S


def main(S, env):
    ops = S.node.make(env)
    with notrace():
        # unique names per path: forward references are resolved by name, and typing / mashumaro caches keyed by name
        # must not see a class of an earlier path
        COUNTER[0] += 1
        fam = build(S.mode, "L%d" % COUNTER[0], S.mixin)
        twin = build("eager", "E%d" % COUNTER[0], S.mixin)
        for j, op in enumerate(ops):
            # the last op gets a dry run here too: first-use compilation must not happen under tracing
            a = run_op(fam, op, concrete(fam, op[0], a=j + 1), S.fmt)
            b = run_op(twin, op, concrete(twin, op[0], a=j + 1), S.fmt)
            if a != b:
                if a[0] == "exc" and a[1] == "RecursionError":
                    return fail("C14/first-call-recursed:%s" % S.mode, ops=ops, at=j)
                if a[:2] == b[:2]:
                    return fail("C14/hook-trace-differs-from-eager-twin:%s" % S.mode, ops=ops, at=j, got=a[2], eager=b[2])
                if a[0] == "exc" and b[0] == "ok":
                    return fail("C14/call-failed-only-in-%s-mode:%s" % (S.mode, a[1]), ops=ops, at=j, eager=b)
                return fail("C14/outcome-differs-from-eager-twin:%s" % S.mode, ops=ops, at=j, got=a, eager=b)
    op = ops[-1]
    n = 1
    o = None if env[S.node.o_none] else env[S.node.o]
    xa = concrete(fam, op[0], a=env[S.node.a], o=o, n=n)
    xb = concrete(twin, op[0], a=env[S.node.a], o=o, n=n)
    a = run_op(fam, op, xa, S.fmt)
    b = run_op(twin, op, xb, S.fmt)
    if a != b:
        return fail("C14/outcome-differs-from-eager-twin:%s" % S.mode, ops=ops, at=len(ops) - 1, got=a, eager=b, traced=True)
    return True


def twin(S, env):
    ops = S.node.make(env)
    if ops[-1][2] != 1 or ops[0][1] != "from_fmt" or env[S.node.n] != 1:
        return True
    return not main(S, env)
