"""C15 -- all entry points agree (harness side)."""
import dataclasses
import typing

from mashumaro import DataClassDictMixin
from mashumaro.codecs import basic as basic_codec
from mashumaro.codecs.basic import BasicDecoder, BasicEncoder

from vf import oracle, symval, tinfo
from vf.hlib import call, fail, notrace, pick
from vf.props.common import deep_eq, region


class S_:
    pass


class Input(symval.Node):
    def __init__(self, ctx, T):
        self.v = symval.plan(T, ctx)
        self.op = ctx.new("k", "int", "0 <= $ < 5")

    def make(self, env):
        return self.v.make(env)


def make_input_plan(T, variant):
    ctx = symval.Ctx(symval.Bounds(maxlen=1, maxkeys=1, poolmax=2))
    return ctx, Input(ctx, T)


def setup(T, NODE, CTX, variant):
    S = S_()
    S.T, S.node, S.ctx, S.variant = T, NODE, CTX, variant
    S.is_dc = dataclasses.is_dataclass(tinfo.info(T).type) if tinfo.info(T).kind == "dataclass" else False
    S.is_mixin = S.is_dc and issubclass(tinfo.info(T).type, DataClassDictMixin) and tinfo.info(T).type is T
    Outer = dataclasses.make_dataclass("Outer", [("f", T)], bases=(DataClassDictMixin,))
    S.Outer = Outer
    S.enc = {
        "codec": BasicEncoder(T).encode,
        "list": lambda x, e=BasicEncoder(typing.List[T]): e.encode([x])[0],
        "dict": lambda x, e=BasicEncoder(typing.Dict[str, T]): e.encode({"k": x})["k"],
        "tuple": lambda x, e=BasicEncoder(typing.Tuple[T, int]): e.encode((x, 1))[0],
        "optional": BasicEncoder(typing.Optional[T]).encode,
        "field": lambda x: Outer(f=x).to_dict()["f"],
    }
    S.dec = {
        "codec": BasicDecoder(T).decode,
        "list": lambda d, c=BasicDecoder(typing.List[T]): c.decode([d])[0],
        "dict": lambda d, c=BasicDecoder(typing.Dict[str, T]): c.decode({"k": d})["k"],
        "tuple": lambda d, c=BasicDecoder(typing.Tuple[T, int]): c.decode([d, 1])[0],
        "optional": BasicDecoder(typing.Optional[T]).decode,
        "field": lambda d: Outer.from_dict({"f": d}).f,
    }
    if S.is_mixin:
        S.enc["mixin"] = lambda x: x.to_dict()
        S.dec["mixin"] = T.from_dict
    # one-shot functions build a codec per call (the generator would run traced): dry run on concrete representatives
    ctx0 = symval.Ctx(symval.Bounds(maxlen=1, maxkeys=1, poolmax=1))
    n0 = symval.plan(T, ctx0)
    for fill in (0, 1):
        env0 = {}
        for name, ann, pre in ctx0.vars:
            env0[name] = {"int": fill, "str": "ab"[:fill], "bool": bool(fill), "float": float(fill)}[ann]
            if name[0] in "nk":
                env0[name] = 0 if name[0] == "k" else fill
        x0 = n0.make(env0)
        a = basic_codec.encode(x0, T)
        b = S.enc["codec"](x0)
        if not oracle.exact_eq(a, b):
            raise AssertionError("VF-DRYRUN one-shot encode differs: %r vs %r" % (a, b))
        r = basic_codec.decode(a, T)
        if not deep_eq(r, S.dec["codec"](a)):
            raise AssertionError("VF-DRYRUN one-shot decode differs")
    return S


def interfere(S, op):
    """things that must not change what an existing class or codec does"""
    T = S.T
    if op == 1:
        BasicEncoder(T)
        BasicDecoder(T)
    elif op == 2:
        BasicEncoder(typing.List[typing.Optional[T]])
        BasicDecoder(typing.Dict[str, typing.List[T]])
    elif op == 3 and S.is_dc:
        base = tinfo.info(T).type
        try:
            dataclasses.make_dataclass("Sub", [("zz", int, dataclasses.field(default=0))], bases=(base,))
        except TypeError:
            pass
    elif op == 4:
        dataclasses.make_dataclass("Outer2", [("g", typing.List[T]), ("h", typing.Optional[T], dataclasses.field(default=None))],
                                   bases=(DataClassDictMixin,))
        basic_codec.encode([], typing.List[T])


def main(S, env):
    x = S.node.make(env)
    op = pick(env[S.node.op], 5)
    outs = {}
    for name, fn in S.enc.items():
        st, d = call(fn, x)
        if st == "exc":
            return fail("C15/encode-raised:%s:%s" % (name, type(d).__name__), value=x, exc=d)
        outs[name] = d
    base = outs["codec"]
    for name, d in outs.items():
        if not oracle.exact_eq(d, base):
            return fail("C15/encode-entry-points-differ:%s" % name, value=x, codec=base, other=d)
    with notrace():
        interfere(S, op)
    for name, fn in S.enc.items():
        st, d = call(fn, x)
        if st == "exc" or not oracle.exact_eq(d, base):
            return fail("C15/encode-changed-after-interference:%s:op%d" % (name, op), value=x, before=base, after=d)
    d0 = base  # the document every encoder agreed on
    res = {}
    for name, fn in S.dec.items():
        st, r = call(fn, d0)
        if st == "exc":
            return fail("C15/decode-raised:%s:%s" % (name, type(r).__name__), input=d0, exc=r)
        res[name] = r
    for name, r in res.items():
        if not deep_eq(r, res["codec"]):
            return fail("C15/decode-entry-points-differ:%s" % name, input=d0, codec=res["codec"], other=r)
    return True


def twin(S, env):
    if env[S.node.op] != 4:
        return True
    return not (region(S.ctx, env) and main(S, env))


# ------------------------------------------------------------------ one-shot functions: order of earlier calls
import datetime as _dt


@dataclasses.dataclass
class P1:
    a: int


@dataclasses.dataclass
class P2:
    a: int
    b: str = "b"


ONESHOT_SHAPES = [typing.Union[P1, P2], typing.Union[P2, P1], typing.Union[int, str], typing.Union[str, int],
                  typing.Union[_dt.date, str], typing.Union[str, _dt.date], typing.Optional[P1], typing.List[typing.Union[P2, P1]]]


class OneShotInput(symval.Node):
    def __init__(self, ctx, k=2):
        self.sel = [ctx.new("k", "int", "0 <= $ < %d" % len(ONESHOT_SHAPES)) for _ in range(k)]
        self.a = ctx.new("i", "int")

    def make(self, env):
        return [ONESHOT_SHAPES[pick(env[x], len(ONESHOT_SHAPES))] for x in self.sel]


def oneshot_main(S, env):
    chosen = S.node.make(env)
    r = ONESHOT_SHAPES.index(chosen[0])
    shapes = chosen + ONESHOT_SHAPES[r:] + ONESHOT_SHAPES[:r]
    with notrace():
        # every one-shot call builds (or fetches) a codec: run the solver-chosen sequence on concrete data and compare each
        # call with a codec object built for exactly that shape
        for j, shp in enumerate(shapes):
            for data in ({"a": 1, "b": "x"}, "2020-01-02", 5, [{"a": 2, "b": "y"}], None):
                st1, r1 = call(basic_codec.decode, data, shp)
                st2, r2 = call(BasicDecoder(shp).decode, data)
                if st1 != st2 or (st1 == "ok" and not deep_eq(r1, r2)):
                    return fail("C15/one-shot-decode-differs-from-codec", sequence=shapes[: j + 1], data=data, got=r1, want=r2)
                if st1 == "ok":
                    st3, e1 = call(basic_codec.encode, r1, shp)
                    st4, e2 = call(BasicEncoder(shp).encode, r2)
                    if st3 != st4 or (st3 == "ok" and not oracle.exact_eq(e1, e2)):
                        return fail("C15/one-shot-encode-differs-from-codec", sequence=shapes[: j + 1], data=data, got=e1, want=e2)
    return True


_orig_main, _orig_twin, _orig_setup, _orig_plan = main, twin, setup, make_input_plan


def make_input_plan(T, variant, **kw):
    if variant == "oneshot":
        ctx = symval.Ctx()
        return ctx, OneShotInput(ctx)
    return _orig_plan(T, variant)


def setup(T, NODE, CTX, variant, **kw):
    if variant == "oneshot":
        S = S_()
        S.node, S.ctx, S.variant = NODE, CTX, variant
        return S
    return _orig_setup(T, NODE, CTX, variant)


def main(S, env):
    if S.variant == "oneshot":
        return oneshot_main(S, env)
    return _orig_main(S, env)


def twin(S, env):
    if S.variant == "oneshot":
        sel = [env[x] for x in S.node.sel]
        if not (sel[0] == 0 and sel[1] == 1):
            return True
        return not oneshot_main(S, env)
    return _orig_twin(S, env)
