"""C18 -- no hidden sharing or mutation (harness side).  Containers are real objects, so identity is real identity."""
import collections
import dataclasses
import types

from mashumaro import DataClassDictMixin
from mashumaro.codecs.basic import BasicDecoder, BasicEncoder
from mashumaro.dialect import Dialect

from vf import oracle, tinfo
from vf.hlib import call, fail
from vf.props.common import deep_eq, region

MUT = (list, dict, set, bytearray, collections.deque, collections.OrderedDict, collections.defaultdict,
       collections.Counter, collections.ChainMap)
IDENT = ("int", "float", "bool", "str", "none", "any")


class S_:
    pass


def setup(T, NODE, CTX, variant, no_copy=()):
    S = S_()
    S.T, S.node, S.ctx, S.variant = T, NODE, CTX, variant
    S.no_copy = tuple(no_copy)
    dialect = None
    if no_copy:
        dialect = type("NC", (Dialect,), {"no_copy_collections": tuple(no_copy)})
        globals()["NC"] = dialect
    if variant == "codec":
        S.encode = BasicEncoder(T, default_dialect=dialect).encode
        S.decode = BasicDecoder(T, default_dialect=dialect).decode
        S.wrap = lambda v: v
        S.RT = T
    else:
        ns = {}
        if dialect is not None:
            ns["Config"] = type("Config", (), {"dialect": dialect})
        bases = (DataClassDictMixin,)
        if variant == "mpfield":
            # a format mixin: the same class also gets methods compiled under the format's own dialect (whose
            # no_copy_collections differ); to_dict must still follow the default dialect
            from mashumaro.mixins.msgpack import DataClassMessagePackMixin
            from mashumaro.mixins.orjson import DataClassORJSONMixin

            bases = (DataClassMessagePackMixin, DataClassORJSONMixin)
        W = dataclasses.make_dataclass("W", [("x", T)], bases=bases, namespace=ns)
        S.encode = lambda w: w.to_dict()
        S.decode = W.from_dict
        S.wrap = lambda v: W(x=v)
        S.RT = W
    return S


def containers(x, out, depth=0):
    """ids of all mutable containers reachable from x"""
    if depth > 8:
        return
    if isinstance(x, MUT):
        out[id(x)] = x
    if isinstance(x, collections.ChainMap):
        for m in x.maps:
            containers(m, out, depth + 1)
    elif isinstance(x, (dict, types.MappingProxyType)):
        for k, v in x.items():
            containers(k, out, depth + 1)
            containers(v, out, depth + 1)
    elif isinstance(x, (list, tuple, set, frozenset, collections.deque)):
        for y in x:
            containers(y, out, depth + 1)
    elif dataclasses.is_dataclass(x) and not isinstance(x, type):
        for f in dataclasses.fields(x):
            containers(getattr(x, f.name), out, depth + 1)


def conv_free(t, N, tv=None):
    """elements of this type need no conversion under no-copy set N (so the enclosing container can go by reference)"""
    ti = tinfo.info(t, tv)
    if ti.kind in IDENT:
        return True
    if ti.kind == "seq" and ti.origin in N:
        return conv_free(ti.args[0], N, tv)
    if ti.kind == "map" and ti.origin in N:
        return conv_free(ti.args[0], N, tv) and conv_free(ti.args[1], N, tv)
    return False


def sharing_sets(t, v, N, must, may, tv=None, nested_N=None):
    """must: ids that have to be passed by reference; may: ids that are allowed to be.
    N is decided by the annotation's own origin type; nested_N is the set in force inside nested dataclasses (a class-level
    Config.dialect does not reach nested classes, a codec's default_dialect does)."""
    if nested_N is None:
        nested_N = N
    ti = tinfo.info(t, tv)
    k = ti.kind
    if v is None:
        return
    if k == "optional":
        return sharing_sets(ti.args[0], v, N, must, may, tv, nested_N)
    if k == "union":
        for a in ti.args:
            if oracle.conforms(a, v, tv, shallow=True):
                return sharing_sets(a, v, N, must, may, tv, nested_N)
        return
    if k == "stype":
        ann = tinfo.stype_annotations(ti.type)
        if ann:
            # the value handed out by _serialize() is treated according to its annotation; if the object hands out its own
            # containers, a no-copy set passes them on by reference
            m2, y2, own = set(), set(), {}
            sharing_sets(ann[0], v._serialize(), N, m2, y2, tv, nested_N)
            containers(v, own)  # only containers of the object itself count (what _serialize() creates afresh does not)
            must.update(m2 & set(own))
            may.update(y2 & set(own))
        return
    if k == "seq":
        ek = tinfo.info(ti.args[0], tv).kind
        if ti.origin in N and conv_free(ti.args[0], N, tv):
            if isinstance(v, MUT):
                must.add(id(v))
                may.add(id(v))
            if ek in IDENT:
                return
        elif ti.origin in N and ek == "optional" and conv_free(tinfo.info(ti.args[0], tv).args[0], N, tv):
            if isinstance(v, MUT):
                may.add(id(v))
        for y in v:
            sharing_sets(ti.args[0], y, N, must, may, tv, nested_N)
        return
    if k == "map":
        if ti.origin in N and conv_free(ti.args[0], N, tv) and conv_free(ti.args[1], N, tv):
            if isinstance(v, MUT):
                must.add(id(v))
                may.add(id(v))
        for key, y in v.items():
            sharing_sets(ti.args[1], y, N, must, may, tv, nested_N)
        return
    if k == "tuple_var":
        for y in v:
            sharing_sets(ti.args[0], y, N, must, may, tv, nested_N)
        return
    if k == "tuple_fixed":
        for a, y in zip(oracle.flatten_tuple_args(ti.args, len(v)), v):
            sharing_sets(a, y, N, must, may, tv, nested_N)
        return
    if k == "chainmap":
        for m in v.maps:
            for key, y in m.items():
                sharing_sets(ti.args[1], y, N, must, may, tv, nested_N)
        return
    if k == "dataclass":
        tv2 = dict(tv or {})
        tv2.update(ti.extra or {})
        for n, ft, f in tinfo.dc_fields(ti.type):
            sharing_sets(ft, getattr(v, n), nested_N, must, may, tv2, nested_N)
        return
    if k == "namedtuple":
        tv = tinfo.scope(ti, tv)
        for n, ft in tinfo.nt_fields(ti.type):
            sharing_sets(ft, getattr(v, n), N, must, may, tv, nested_N)
        return
    if k == "typeddict":
        tv = tinfo.scope(ti, tv)
        hints, req, opt = tinfo.td_keys(ti.type)
        for kk in hints:
            if kk in v:
                sharing_sets(hints[kk], v[kk], N, must, may, tv, nested_N)
        return
    if k == "any":
        cs = {}
        containers(v, cs)
        may.update(cs)  # Any positions are passed through
        return


def main(S, env):
    v = S.wrap(S.node.make(env))
    v_twin = S.wrap(S.node.make(env))
    st, d = call(S.encode, v)
    if st == "exc":
        return fail("C18/encode-raised:%s" % type(d).__name__, value=v, exc=d)
    if not deep_eq(v, v_twin):
        return fail("C18/encode-mutated-object", before=v_twin, after=v)
    cv, cd = {}, {}
    containers(v, cv)
    containers(d, cd)
    shared = set(cv) & set(cd)
    must, may = set(), set()
    if S.variant == "codec":
        sharing_sets(S.RT, v, S.no_copy, must, may)
    else:
        # W itself is compiled under Config.dialect; nested dataclasses use their own configuration
        for n, ft, f in tinfo.dc_fields(S.RT):
            sharing_sets(ft, getattr(v, n), S.no_copy, must, may, None, ())
    if not shared <= may:
        bad = [cv[i] for i in shared - may]
        return fail("C18/encode-shares-container:%s" % type(bad[0]).__name__, value=v, shared=bad, no_copy=S.no_copy)
    if not must <= shared:
        bad = [cv[i] for i in must - shared]
        return fail("C18/no-copy-not-by-reference:%s" % type(bad[0]).__name__, value=v, copied=bad, no_copy=S.no_copy)
    # decode direction: input never mutated, result shares no typed container with it
    d2 = oracle.ref_encode(S.RT, v_twin)
    d2_twin = oracle.ref_encode(S.RT, v_twin)
    st, r = call(S.decode, d2)
    if st == "exc":
        return fail("C18/decode-raised:%s" % type(r).__name__, input=d2, exc=r)
    if not deep_eq(d2, d2_twin):
        return fail("C18/decode-mutated-input", before=d2_twin, after=d2)
    ci, cr = {}, {}
    containers(d2, ci)
    containers(r, cr)
    sh = set(ci) & set(cr)
    if sh:
        anyok = set()
        sharing_sets(S.RT, r, (), set(), anyok)
        if not sh <= anyok:
            bad = [ci[i] for i in sh - anyok]
            return fail("C18/decode-shares-container:%s" % type(bad[0]).__name__, input=d2, shared=bad)
    return True


def twin(S, env):
    return not (region(S.ctx, env) and main(S, env))
