"""C19 -- hooks run exactly once per instance, in order, through every entry point (harness side)."""
import dataclasses

from mashumaro.codecs.basic import BasicDecoder, BasicEncoder

from vf import oracle, tinfo
from vf.hlib import call, fail
from vf.props.common import region

LOG = []


class S_:
    pass


def ident(data, **kw):
    return data


def make_input_plan(T, variant, **kw):
    return disc_plan(T, variant, **kw)


def setup(T, NODE, CTX, variant, context=False, repl=False):
    if variant == "disc":
        return disc_setup(T, NODE, CTX, variant)
    S = S_()
    S.T, S.node, S.ctx, S.variant, S.context = T, NODE, CTX, variant, context
    S.repl = repl
    if variant == "codec":
        S.enc = BasicEncoder(T).encode
        S.dec = BasicDecoder(T).decode
    elif variant == "mixin":
        S.enc = (lambda v, ctx=None: v.to_dict(context=ctx)) if context else (lambda v: v.to_dict())
        S.dec = T.from_dict
    elif variant == "orjson":
        S.enc = lambda v: v.to_jsonb(encoder=ident)
        S.dec = lambda d: T.from_json(d, decoder=ident)
    elif variant == "msgpack":
        S.enc = lambda v: v.to_msgpack(encoder=ident)
        S.dec = lambda d: T.from_msgpack(d, decoder=ident)
    return S


def has_hook(cls, name):
    for k in cls.__mro__:
        if name in k.__dict__ and k.__module__ != "mashumaro.mixins.dict":
            return True
    return False


def walk(t, v, pre, post, tv=None):
    """dataclass instances of v in traversal order: pre-order list `pre`, post-order list `post`"""
    if v is None:
        return
    ti = tinfo.info(t, tv)
    k = ti.kind
    if k == "optional":
        return walk(ti.args[0], v, pre, post, tv)
    if k == "union":
        for a in ti.args:
            if oracle.conforms(a, v, tv, shallow=True):
                return walk(a, v, pre, post, tv)
        return
    if k in ("seq", "tuple_var"):
        for y in v:
            walk(ti.args[0], y, pre, post, tv)
    elif k == "tuple_fixed":
        for a, y in zip(oracle.flatten_tuple_args(ti.args, len(v)), v):
            walk(a, y, pre, post, tv)
    elif k == "map":
        for key, y in v.items():
            walk(ti.args[1], y, pre, post, tv)
    elif k == "dataclass":
        pre.append(v)
        tv2 = dict(tv or {})
        tv2.update(ti.extra or {})
        tv2.update(tinfo.info(type(v)).extra or {})
        for n, ft, f in tinfo.dc_fields(type(v)):
            walk(ft, getattr(v, n), pre, post, tv2)
        post.append(v)
    elif k == "namedtuple":
        tv = tinfo.scope(ti, tv)
        for n, ft in tinfo.nt_fields(ti.type):
            walk(ft, getattr(v, n), pre, post, tv)
    elif k == "typeddict":
        tv = tinfo.scope(ti, tv)
        hints, req, opt = tinfo.td_keys(ti.type)
        for kk in hints:
            if kk in v:
                walk(hints[kk], v[kk], pre, post, tv)


def expected_ser_trace(T, v):
    """pre-order __pre_serialize__, post-order __post_serialize__, as one interleaved sequence"""
    out = []

    def rec(t, x, tv=None):
        if x is None:
            return
        ti = tinfo.info(t, tv)
        k = ti.kind
        if k == "optional":
            return rec(ti.args[0], x, tv)
        if k == "union":
            for a in ti.args:
                if oracle.conforms(a, x, tv, shallow=True):
                    return rec(a, x, tv)
            return
        if k in ("seq", "tuple_var"):
            for y in x:
                rec(ti.args[0], y, tv)
        elif k == "tuple_fixed":
            for a, y in zip(oracle.flatten_tuple_args(ti.args, len(x)), x):
                rec(a, y, tv)
        elif k == "map":
            for key, y in x.items():
                rec(ti.args[1], y, tv)
        elif k == "dataclass":
            cls = type(x)
            if has_hook(cls, "__pre_serialize__"):
                out.append(("pre_ser", cls.__name__, id(x)))
            tv2 = dict(tv or {})
            tv2.update(ti.extra or {})
            tv2.update(tinfo.info(cls).extra or {})
            for n, ft, f in tinfo.dc_fields(cls):
                rec(ft, getattr(x, n), tv2)
            if has_hook(cls, "__post_serialize__"):
                out.append(("post_ser", cls.__name__, id(x)))

    rec(T, v)
    return out


def repl_main(S, env):
    """the hooks' return values are what is used"""
    v = S.node.make(env)
    items = v if isinstance(v, list) else [v]
    st, d = call(S.enc, v)
    if st == "exc":
        return fail("C19/encode-raised:%s" % type(d).__name__, value=v, exc=d)
    docs = d if isinstance(v, list) else [d]
    for x, doc in zip(items, docs):
        want = {"a": x.a + 1, "b": x.b, "extra": 1}
        if doc != want:
            return fail("C19/hook-return-value-not-used:serialize", value=x, got=doc, want=want)
    for reset in (False, True):
        ins = []
        for x in items:
            dd = {"a": x.a, "b": x.b}
            if reset:
                dd["reset"] = 1
            ins.append(dd)
        st, r = call(S.dec, ins if isinstance(v, list) else ins[0])
        if st == "exc":
            return fail("C19/decode-raised:%s" % type(r).__name__, input=ins, exc=r)
        rs = r if isinstance(v, list) else [r]
        for x, y in zip(items, rs):
            wa = -1 if reset else x.a
            if y.a != wa or y.b != 100:
                return fail("C19/hook-return-value-not-used:deserialize", input=ins, got=y, want=(wa, 100), reset=reset)
    return True


def main(S, env):
    if S.variant == "disc":
        return disc_main(S, env)
    if S.repl:
        return repl_main(S, env)
    v = S.node.make(env)
    del LOG[:]
    ctxobj = object()
    if S.context:
        st, d = call(S.enc, v, ctxobj)
    else:
        st, d = call(S.enc, v)
    if st == "exc":
        return fail("C19/encode-raised:%s" % type(d).__name__, value=v, exc=d)
    got = [(h, c, i) for (h, c, i, x) in LOG]
    want = expected_ser_trace(S.T, v)
    if got != want:
        return fail(classify(got, want, "ser"), value=v, got=names(got), want=names(want))
    if S.context:
        for (h, c, i, x) in LOG:
            if x is not ctxobj:
                return fail("C19/context-not-forwarded", value=v, hook=h, cls=c, got=x)
    # deserialize: pre hook before the fields are read (pre-order), post hook once per instance of the result (post-order)
    d2 = oracle.ref_encode(S.T, v)
    del LOG[:]
    st, r = call(S.dec, d2)
    if st == "exc":
        return fail("C19/decode-raised:%s" % type(r).__name__, input=d2, exc=r)
    pre, post = [], []
    walk(S.T, r, pre, post)
    got_post = [(c, i) for (h, c, i, x) in LOG if h == "post_de"]
    want_post = [(type(x).__name__, id(x)) for x in post if has_hook(type(x), "__post_deserialize__")]
    if got_post != want_post:
        return fail(classify(got_post, want_post, "post_de"), input=d2, got=[c for c, i in got_post],
                    want=[c for c, i in want_post])
    # __pre_deserialize__: the statement requires it to run before the instance's fields are read; speculative union
    # attempts legitimately call the pre hook of members that then reject the input, so the expected pre-order sequence
    # must be a subsequence of what was recorded, and each post hook must be preceded by a pre hook of its class
    got_pre = [c for (h, c, i, x) in LOG if h == "pre_de"]
    want_pre = [type(x).__name__ for x in pre if has_hook(type(x), "__pre_deserialize__")]
    j = 0
    for c in got_pre:
        if j < len(want_pre) and c == want_pre[j]:
            j += 1
    if j != len(want_pre):
        return fail("C19/hook-missing:pre_de", input=d2, got=got_pre, want=want_pre)
    opened = {}
    for (h, c, i, x) in LOG:
        if h == "pre_de":
            opened[c] = opened.get(c, 0) + 1
        elif h == "post_de":
            cls = [type(y) for y in post if id(y) == i]
            if cls and has_hook(cls[0], "__pre_deserialize__"):
                if opened.get(c, 0) <= 0:
                    return fail("C19/post-before-pre", input=d2, trace=[(a, b) for a, b, _, _ in LOG])
    return True


# ------------------------------------------------------------------ dispatch through a Config discriminator
def disc_plan(T, variant, **kw):
    from vf import symval

    ctx = symval.Ctx()
    node = DiscInput(ctx)
    return ctx, node


class DiscInput:
    def __init__(self, ctx):
        self.which = ctx.sel(2)   # Circle | Sq
        self.entry = ctx.sel(4)   # Base.from_dict | holder List[Base] | codec(Base) | Variant.from_dict
        self.k = ctx.new("i", "int")
        self.r = ctx.new("i", "int")

    def make(self, env):
        from vf.hlib import pick

        return pick(env[self.which], 2), pick(env[self.entry], 4), env[self.k], env[self.r]


def disc_setup(T, NODE, CTX, variant, **kw):
    """T is the root of a hierarchy with a Config field discriminator; no union speculation is involved, so the
    __pre_deserialize__ trace is exact here: only the class that is instantiated runs its hooks, each once"""
    S = S_()
    S.T, S.node, S.ctx, S.variant, S.context, S.repl = T, NODE, CTX, "disc", False, False
    import typing
    from mashumaro import DataClassDictMixin

    S.variants = [c for c in T.__subclasses__()]
    S.holder = dataclasses.make_dataclass("DiscHolder", [("items", typing.List[T])], bases=(DataClassDictMixin,))
    S.codec = BasicDecoder(T).decode
    S.enc_codec = BasicEncoder(T).encode
    # compile everything on concrete data before tracing
    for V in S.variants:
        d = V().to_dict()
        T.from_dict(d); S.holder.from_dict({"items": [d]}); S.codec(d); V.from_dict(d)
    return S


def disc_main(S, env):
    which, entry, k, r = S.node.make(env)
    V = S.variants[which]
    v = V(k=k, r=r)
    del LOG[:]
    st, d = call(v.to_dict)
    if st == "exc":
        return fail("C19/encode-raised:%s" % type(d).__name__, value=v, exc=d)
    got = [(h, c) for (h, c, i, x) in LOG]
    want = [("pre_ser", V.__name__), ("post_ser", V.__name__)]
    if got != want:
        return fail(classify(got, want, "ser"), value=v, got=got, want=want)
    del LOG[:]
    if entry == 0:
        st, res = call(S.T.from_dict, d)
    elif entry == 1:
        st, res = call(S.holder.from_dict, {"items": [d]})
        if st == "ok":
            res = res.items[0]
    elif entry == 2:
        st, res = call(S.codec, d)
    else:
        st, res = call(V.from_dict, d)
    if st == "exc":
        return fail("C19/decode-raised:%s" % type(res).__name__, input=d, exc=res, entry=entry)
    if type(res) is not V or res != v:
        return fail("C19/dispatch-wrong-result", input=d, got=res, entry=entry)
    got = [(h, c) for (h, c, i, x) in LOG]
    want = [("pre_de", V.__name__), ("post_de", V.__name__)]
    if got != want:
        return fail(classify(got, want, "de-through-discriminator"), input=d, got=got, want=want, entry=entry)
    return True


def has_hook_name(S, clsname, hook):
    return True


def names(tr):
    return [(h, c) for h, c, i in tr]


def classify(got, want, what):
    if len(got) > len(want):
        return "C19/hook-fired-too-often:%s" % what
    if len(got) < len(want):
        return "C19/hook-missing:%s" % what
    return "C19/hook-order:%s" % what


def twin(S, env):
    if S.variant == "disc":
        which, entry, k, r = S.node.make(env)
        return not (which == 1 and entry == 0 and main(S, env))
    return not (region(S.ctx, env) and main(S, env))
