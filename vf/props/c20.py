"""C20 -- schema generation is total, well formed and closed (harness side).

(i) configuration cube: selectors are solver variables realised by if-chains; the class family is built and the schema
    generated inside NoTracing (types cannot be symbolic), so here CrossHair+z3 enumerate a finite cube exhaustively;
(ii) builder sequences: <= 3 JSONSchemaBuilder.build calls over a type pool chosen by selectors;
(iii) genuinely symbolic: JSONSchema.from_dict(doc).to_dict() == doc for schema-shaped documents with symbolic keyword
    presence and symbolic const/default values, executed traced on the model class's generated code and hooks."""
import dataclasses
import datetime
import enum
import typing

import jsonschema

from mashumaro import DataClassDictMixin
from mashumaro.config import BaseConfig
from mashumaro.dialect import Dialect
from mashumaro.jsonschema import DRAFT_2020_12, OPEN_API_3_1, JSONSchemaBuilder, build_json_schema
from mashumaro.jsonschema.models import JSONSchema

from vf import symval
from vf.hlib import call, fail, notrace, pick

TRI = (None, False, True)


class S_:
    pass


class Color(enum.Enum):
    RED = "red"
    GREEN = "green"


class Point(typing.NamedTuple):
    px: int
    py: int


class Seg(typing.NamedTuple):
    # string annotations: the forward references are resolved through the NamedTuple's own module
    a: "Point"
    b: "Point"


class DOmit(Dialect):
    omit_none = True
    omit_default = True
    serialize_by_alias = True


def _ser_opt(v) -> typing.Optional[float]:
    return None


def _ser_list(v) -> typing.List[int]:
    return [v]


def _ser_map(v) -> typing.Dict[str, typing.Optional[int]]:
    return {"v": v}


def _ser_union(v) -> typing.Union[int, str]:
    return v


def family(kind, cfg):
    """Build a fresh dataclass family under configuration cfg; returns the root type."""
    ns = {}
    if cfg is not None:
        opts = {}
        for k in ("omit_none", "omit_default", "serialize_by_alias"):
            if cfg[k] is not None:
                opts[k] = cfg[k]
        if cfg["dialect"]:
            opts["dialect"] = DOmit
        if cfg["aliases"]:
            opts["aliases"] = {"a": "A", "n": "N", "x": "X"}
        ns["Config"] = type("Config", (BaseConfig,), opts)
    F = dataclasses.field
    if kind == "defaults":
        fields = [("r", int), ("x", int, F(default=7)), ("a", int, F(default=1)), ("s", str, F(default="x")), ("f", float, F(default=1.5)),
                  ("b", bool, F(default=False)), ("n", typing.Optional[int], F(default=None)),
                  ("d", datetime.date, F(default=datetime.date(2000, 1, 2))),
                  ("dt", datetime.datetime, F(default=datetime.datetime(2000, 1, 2, 3, 4))),
                  ("td", datetime.timedelta, F(default=datetime.timedelta(seconds=5))),
                  ("e", Color, F(default=Color.RED)), ("t", typing.Tuple[int, str], F(default=(1, "x"))),
                  ("l", typing.List[int], F(default_factory=list)), ("by", bytes, F(default=b"ab")),
                  ("m", typing.Dict[str, int], F(default_factory=dict)),
                  ("lit", typing.Literal["a", 1], F(default="a")), ("dn", datetime.date, F(default=None))]
        return dataclasses.make_dataclass("Dflt", fields, bases=(DataClassDictMixin,), namespace=ns)
    if kind == "nested":
        Inner = dataclasses.make_dataclass("Inner", [("p", int, F(default=2)), ("q", typing.Optional[str], F(default=None))],
                                           bases=(DataClassDictMixin,), namespace=dict(ns))
        return dataclasses.make_dataclass(
            "Outer", [("i", Inner), ("li", typing.List[Inner], F(default_factory=list)),
                      ("oi", typing.Optional[Inner], F(default=None)), ("a", int, F(default=3))],
            bases=(DataClassDictMixin,), namespace=ns)
    if kind == "selfref":
        ns2 = dict(ns)
        Node = dataclasses.make_dataclass("Node", [("v", int, F(default=0)), ("nxt", typing.Optional["Node"], F(default=None))],
                                          bases=(DataClassDictMixin,), namespace=ns2)
        # make the forward reference resolvable
        import sys
        sys.modules[Node.__module__].__dict__["Node"] = Node
        return Node
    if kind == "generic":
        T = typing.TypeVar("T")
        G = dataclasses.make_dataclass("G", [("g", T), ("gs", typing.List[T], F(default_factory=list))],
                                       bases=(typing.Generic[T], DataClassDictMixin), namespace=ns)
        return G[int]
    if kind == "ntfield":
        NTD = typing.NamedTuple("NTD", [("p", int), ("q", typing.Optional[str]), ("d", datetime.date)])
        NTD.__new__.__defaults__ = (None, datetime.date(2001, 2, 3))
        NTD._field_defaults = {"q": None, "d": datetime.date(2001, 2, 3)}
        import sys
        sys.modules[NTD.__module__].__dict__.setdefault("NTD", NTD)
        return dataclasses.make_dataclass("WithNT", [("nt", NTD), ("x", int, F(default=1)), ("lnt", typing.List[NTD], F(default_factory=list))],
                                          bases=(DataClassDictMixin,), namespace=ns)
    if kind == "ntfwd":
        return Seg  # the (de)serializer builder does not resolve such references; the schema generator does
    if kind == "deser_only":
        ns2 = dict(ns)
        cfgd = dict(vars(ns2["Config"])) if "Config" in ns2 else {}
        cfgd = {k: v for k, v in cfgd.items() if not k.startswith("__")}
        cfgd["serialization_strategy"] = {datetime.date: {"deserialize": datetime.date.fromisoformat}}
        ns2["Config"] = type("Config", (BaseConfig,), cfgd)
        return dataclasses.make_dataclass("DeserOnly", [("d", datetime.date), ("m", typing.Dict[str, datetime.date], F(default_factory=dict)),
                                                       ("x", int, F(default=1, metadata={"serialization_strategy": {"deserialize": int}}))],
                                          bases=(DataClassDictMixin,), namespace=ns2)
    if kind == "nonefield":
        # a field typed exactly None with a default and a description, next to ordinary nullable fields
        return dataclasses.make_dataclass(
            "Tomb", [("deleted", None, F(default=None, metadata={"description": "tombstone"})),
                     ("n", typing.Optional[int], F(default=None)), ("m", typing.Optional[str], F(default="x"))],
            bases=(DataClassDictMixin,), namespace=ns)
    if kind == "ann_meta":
        # Annotated metadata that cannot be hashed, on fields WITH non-None defaults
        from mashumaro.jsonschema.annotations import Contains, DependentRequired
        from mashumaro.jsonschema.models import JSONSchema as _JS

        return dataclasses.make_dataclass(
            "AnnMeta", [("u", typing.Annotated[int, {"doc": ["x"]}], F(default=3)),
                        ("l", typing.Annotated[int, ["tag"]], F(default=4)),
                        ("c", typing.Annotated[typing.Tuple[int, ...], Contains(_JS(enum=[1, 2]))], F(default=(1,))),
                        ("d", typing.Annotated[typing.Dict[str, int], DependentRequired({"a": {"b"}})],
                         F(default_factory=lambda: {"a": 1, "b": 2}))],
            bases=(DataClassDictMixin,), namespace=ns)
    if kind == "ser_fn":
        # field-level serialize callables whose return annotation is itself a container / Optional / union
        return dataclasses.make_dataclass(
            "SerFn", [("o", int, F(metadata={"serialize": _ser_opt})), ("l", int, F(default=1, metadata={"serialize": _ser_list})),
                      ("m", int, F(default=2, metadata={"serialize": _ser_map})), ("u", int, F(default=3, metadata={"serialize": _ser_union}))],
            bases=(DataClassDictMixin,), namespace=ns)
    if kind == "ann_generic":
        TT = typing.TypeVar("TT")
        G = dataclasses.make_dataclass("AG", [("g", TT)], bases=(typing.Generic[TT], DataClassDictMixin), namespace=dict(ns))
        return typing.Annotated[G[int], "meta"]
    if kind == "plain":
        return dataclasses.make_dataclass("Plain", [("a", int, F(default=1)), ("n", typing.Optional[str], F(default=None))],
                                          namespace=ns)
    if kind == "slots":
        # slots=True leaves a member descriptor in the class namespace for every field, required ones included
        return dataclasses.make_dataclass(
            "Slotted", [("r", int), ("x", int, F(default=7)), ("n", typing.Optional[str], F(default=None)),
                        ("l", typing.List[int], F(default_factory=list))],
            bases=(DataClassDictMixin,), namespace=ns, slots=True)
    if kind == "aliases":
        # spellings the (de)serializer supports next to the plain ones: PEP 695 aliases, LiteralString
        import typing_extensions as _te
        OptDate = typing.TypeAliasType("OptDate", typing.Optional[datetime.date])
        Ints = typing.TypeAliasType("Ints", typing.List[int])
        return dataclasses.make_dataclass(
            "Spelled", [("ls", _te.LiteralString), ("od", OptDate, F(default=None)), ("x", Ints, F(default_factory=list)),
                        ("lo", typing.List[typing.Annotated[OptDate, "m"]], F(default_factory=list)),
                        ("u", typing.Union[OptDate, int], F(default=1))],
            bases=(DataClassDictMixin,), namespace=ns)
    raise KeyError(kind)


SHAPES = {
    "list_int": typing.List[int], "dict_str_date": typing.Dict[str, datetime.date], "opt_union": typing.Optional[typing.Union[int, str]],
    "tuple": typing.Tuple[int, str], "nt": typing.NamedTuple("NTS", [("a", int), ("b", str)]), "color": Color, "any": typing.Any,
}


def refs_of(doc, out):
    if isinstance(doc, dict):
        for k, v in doc.items():
            if k == "$ref" and isinstance(v, str):
                out.append(v)
            else:
                refs_of(v, out)
    elif isinstance(doc, list):
        for v in doc:
            refs_of(v, out)


def check_built(schema, ctx_defs, prefix, sig, **info):
    st, doc = call(schema.to_dict)
    if st == "exc":
        return fail("C20/to_dict-raised:%s" % type(doc).__name__, exc=doc, **info)
    try:
        import json as _json

        _json.dumps(doc)
    except Exception as e:
        return fail("C20/document-not-json", doc=repr(doc)[:300], error=str(e)[:200], **info)
    try:
        jsonschema.Draft202012Validator.check_schema(doc)
    except Exception as e:
        return fail("C20/not-metaschema-valid", doc=doc, error=str(e)[:200], **info)
    refs = []
    refs_of(doc, refs)
    for r in refs:
        if not r.startswith(prefix + "/"):
            return fail("C20/ref-without-prefix", ref=r, prefix=prefix, **info)
        if r[len(prefix) + 1:] not in ctx_defs:
            return fail("C20/dangling-ref", ref=r, definitions=sorted(ctx_defs), **info)
    st, back = call(lambda: JSONSchema.from_dict(doc).to_dict())
    if st == "exc":
        return fail("C20/model-roundtrip-raised:%s" % type(back).__name__, doc=doc, exc=back, **info)
    if back != doc:
        return fail("C20/model-roundtrip-differs", doc=doc, back=back, **info)
    return True


# ------------------------------------------------------------------ (i) cube
class CubeInput(symval.Node):
    def __init__(self, ctx):
        self.on = ctx.new("k", "int", "0 <= $ < 3")
        self.od = ctx.new("k", "int", "0 <= $ < 3")
        self.sba = ctx.new("k", "int", "0 <= $ < 3")
        self.dialect = ctx.new("b", "bool")
        self.aliases = ctx.new("b", "bool")
        self.all_refs = ctx.new("b", "bool")
        self.oapi = ctx.new("b", "bool")
        self.with_defs = ctx.new("b", "bool")

    def make(self, env):
        return {"omit_none": TRI[pick(env[self.on], 3)], "omit_default": TRI[pick(env[self.od], 3)],
                "serialize_by_alias": TRI[pick(env[self.sba], 3)], "dialect": bool(env[self.dialect]),
                "aliases": bool(env[self.aliases]), "all_refs": bool(env[self.all_refs]), "oapi": bool(env[self.oapi]),
                "with_defs": bool(env[self.with_defs])}


class SeqInput(symval.Node):
    def __init__(self, ctx, pool):
        self.pool = pool
        self.n = ctx.new("n", "int", "1 <= $ <= 3")
        self.sel = [ctx.new("k", "int", "0 <= $ < %d" % len(pool)) for _ in range(3)]
        self.all_refs = ctx.new("b", "bool")
        self.oapi = ctx.new("b", "bool")

    def make(self, env):
        n = pick(env[self.n] - 1, 3) + 1
        return [self.pool[pick(env[self.sel[j]], len(self.pool))] for j in range(n)], bool(env[self.all_refs]), bool(env[self.oapi])


class DocInput(symval.Node):
    """schema-shaped document with symbolic presence of keywords and symbolic const/default values"""

    KEYS = ["type", "title", "const", "default", "enum", "minimum", "properties", "anyOf", "format", "additionalProperties"]
    GROUP = {"description": "title", "maxLength": "minimum", "required": "properties", "items": "anyOf", "$ref": "format",
             "deprecated": "additionalProperties"}

    def __init__(self, ctx, keys=None):
        keys = list(keys or self.KEYS)
        self.flags = {k: (ctx.new("p", "bool") if k in keys else None) for k in self.KEYS}
        self.const_none = ctx.new("z", "bool")
        self.default_none = ctx.new("z", "bool")
        self.i = ctx.new("i", "int")
        self.s = ctx.new("s", "str", "len($) <= 3")
        self.b = ctx.new("b", "bool")
        self.tsel = ctx.new("k", "int", "0 <= $ < 4")

    def make(self, env):
        d = {}
        def p(k):
            fl = self.flags[self.GROUP.get(k, k)]
            return fl is not None and env[fl]
        if p("type"):
            d["type"] = ("object", "array", "string", "integer")[pick(env[self.tsel], 4)]
        if p("title"):
            d["title"] = env[self.s]
        if p("description"):
            d["description"] = "desc"
        if p("const"):
            d["const"] = None if env[self.const_none] else env[self.i]
        if p("default"):
            d["default"] = None if env[self.default_none] else env[self.s]
        if p("enum"):
            d["enum"] = [env[self.i], None, "x"]
        if p("minimum"):
            d["minimum"] = env[self.i]
        if p("maxLength"):
            d["maxLength"] = 3
        if p("required"):
            d["required"] = ["a"]
        if p("items"):
            d["items"] = {"type": "integer"}
        if p("properties"):
            d["properties"] = {"a": {"type": "string", "default": None}, "b": {"const": env[self.b]}}
        if p("$ref"):
            d["$ref"] = "#/$defs/X"
        if p("anyOf"):
            d["anyOf"] = [{"type": "null"}, {"type": "integer", "minimum": env[self.i]}]
        if p("format"):
            d["format"] = "date-time"
        if p("deprecated"):
            d["deprecated"] = env[self.b]
        if p("additionalProperties"):
            d["additionalProperties"] = False
        return d


PREFIXES = ["#/x", "#/x/", "#/x//", "#/components/schemas", "#/components/schemas/", "http://a.b/c/", "x", "x/", "#",
            "#/$defs", "é/"]


class PrefixNode(symval.Node):
    """Measured: build_json_schema traced with a symbolic prefix string gives no verdict in 240 s (the generator runs
    traced), so the prefix comes from a pool through a solver-chosen selector and the build runs untraced."""

    def __init__(self, name):
        self.name = name

    def make(self, env):
        return PREFIXES[pick(env[self.name], len(PREFIXES))]


def make_input_plan(T, variant, **kw):
    ctx = symval.Ctx()
    if variant == "cube":
        return ctx, CubeInput(ctx)
    if variant == "seq":
        return ctx, SeqInput(ctx, list(kw["pool"]))
    if variant == "doc":
        return ctx, DocInput(ctx, kw.get("keys"))
    if variant == "prefix":
        # a prefix consisting of slashes only is stripped to the empty string, i.e. "not configured"
        ctx.new("k", "int", "0 <= $ < %d" % len(PREFIXES))
        return ctx, PrefixNode(ctx.vars[0][0])
    raise KeyError(variant)


def setup(T, NODE, CTX, variant, **kw):
    S = S_()
    S.T, S.node, S.ctx, S.variant = T, NODE, CTX, variant
    # JSONSchema refers to itself, so its methods are compiled on first use: do that here, untraced (DESIGN 3.2(8))
    JSONSchema.from_dict({"type": "integer", "anyOf": [{}], "properties": {"a": {"const": None}}, "items": {},
                          "additionalProperties": False}).to_dict()
    S.kind = kw.get("kind")
    S.pool = kw.get("pool")
    if variant == "prefix":
        S.family = family("nested", None)
    if variant == "seq":
        S.fresh = fresh_references(S.pool)
        # every kind of the pool is built once here, so that each path (and the replay interpreter) starts from the same
        # process state: whatever one build leaks into later builds is then visible deterministically
        for nm in S.pool:
            for all_refs in (False, True):
                try:
                    JSONSchemaBuilder(all_refs=all_refs).build(SHAPES[nm] if nm in SHAPES else family(nm, None))
                except BaseException:
                    pass
    return S


FRESH_SRC = r"""
import json, sys
from vf.props import c20 as P
from mashumaro.jsonschema import JSONSchemaBuilder
from mashumaro.jsonschema.dialects import DRAFT_2020_12, OPEN_API_3_1
nm = sys.argv[1]
out = {}
for all_refs in (False, True):
    for oapi in (False, True):
        try:
            T = P.SHAPES[nm] if nm in P.SHAPES else P.family(nm, None)
            b = JSONSchemaBuilder(dialect=OPEN_API_3_1 if oapi else DRAFT_2020_12, all_refs=all_refs)
            sch = b.build(T)
            out["%d%d" % (all_refs, oapi)] = [sch.to_dict(), {k: v.to_dict() for k, v in b.context.definitions.items()}]
        except BaseException as e:
            out["%d%d" % (all_refs, oapi)] = None
print("FRESH " + json.dumps(out, default=repr, sort_keys=True))
"""


def fresh_references(pool):
    """schema and definitions of every kind of the pool, each built in an interpreter of its own in which nothing else was
    ever built: what a build must produce regardless of what the same process built before (no state shared between builds)"""
    import json
    import subprocess
    import sys

    refs = {}
    for nm in pool:
        p = subprocess.run([sys.executable, "-c", FRESH_SRC, nm], capture_output=True, text=True, timeout=300)
        line = [ln for ln in p.stdout.splitlines() if ln.startswith("FRESH ")]
        refs[nm] = json.loads(line[-1][6:]) if line else None
    return refs


def canon(x):
    import json

    return json.loads(json.dumps(x, default=repr, sort_keys=True))


def build_one(T, c):
    dialect = OPEN_API_3_1 if c["oapi"] else DRAFT_2020_12
    from mashumaro.jsonschema.models import Context

    ctx = Context()
    schema = build_json_schema(T, context=ctx, dialect=dialect, all_refs=c["all_refs"], with_definitions=c["with_defs"])
    return schema, ctx


def cube_main(S, env):
    c = S.node.make(env)
    with notrace():
        try:
            T = SHAPES[S.kind] if S.kind in SHAPES else family(S.kind, c)
        except Exception as e:
            return fail("C20/class-build-raised:%s" % type(e).__name__, config=c, exc=e)
        try:
            schema, ctx = build_one(T, c)
        except RecursionError as e:
            return fail("C20/build-raised:RecursionError:%s" % S.kind, config=c)
        except AssertionError as e:
            return fail("C20/build-raised:AssertionError:%s" % S.kind, config=c)
        except Exception as e:
            return fail("C20/build-raised:%s" % type(e).__name__, config=c, exc=e, kind=S.kind)
        dialect = OPEN_API_3_1 if c["oapi"] else DRAFT_2020_12
        return check_built(schema, ctx.definitions, dialect.definitions_root_pointer, "cube", config=c, kind=S.kind)


def seq_main(S, env):
    names, all_refs, oapi = S.node.make(env)
    with notrace():
        dialect = OPEN_API_3_1 if oapi else DRAFT_2020_12
        b = JSONSchemaBuilder(dialect=dialect, all_refs=all_refs)
        snapshots = []
        for nm in names:
            try:
                T = SHAPES[nm] if nm in SHAPES else family(nm, None)
                sch = b.build(T)
            except RecursionError:
                return fail("C20/build-raised:RecursionError:%s" % nm, sequence=names)
            except Exception as e:
                return fail("C20/build-raised:%s" % type(e).__name__, sequence=names, exc=e)
            ok = check_built(sch, b.context.definitions, dialect.definitions_root_pointer, "seq", sequence=names)
            if ok is not True:
                return ok
            snapshots.append({k: v.to_dict() for k, v in b.context.definitions.items()})
            ref = (S.fresh.get(nm) or {}).get("%d%d" % (all_refs, oapi))
            if ref is not None:
                # the result must not depend on anything this process (or this builder) built before
                if canon(sch.to_dict()) != ref[0]:
                    return fail("C20/build-depends-on-earlier-builds", name=nm, sequence=names, got=sch.to_dict(), fresh=ref[0])
                for k, v in ref[1].items():
                    if canon(snapshots[-1].get(k)) != v:
                        return fail("C20/build-depends-on-earlier-builds", name=nm, definition=k, sequence=names,
                                    got=snapshots[-1].get(k), fresh=v)
        # definitions accumulate consistently: an earlier definition is never dropped or changed by a later build
        for a, bb in zip(snapshots, snapshots[1:]):
            for k, v in a.items():
                if k not in bb:
                    return fail("C20/definition-dropped", name=k, sequence=names)
                if bb[k] != v:
                    return fail("C20/definition-changed", name=k, sequence=names, before=v, after=bb[k])
        st, defs = call(lambda: b.get_definitions().to_dict())
        if st == "exc":
            return fail("C20/get_definitions-raised:%s" % type(defs).__name__, sequence=names, exc=defs)
        return True


def doc_main(S, env):
    doc = S.node.make(env)
    st, back = call(lambda: JSONSchema.from_dict(doc).to_dict())
    if st == "exc":
        return fail("C20/model-roundtrip-raised:%s" % type(back).__name__, doc=doc, exc=back)
    if back != doc:
        return fail("C20/model-roundtrip-differs", doc=doc, back=back)
    return True


def prefix_main(S, env):
    prefix = S.node.make(env)
    with notrace():
        return prefix_body(S, prefix)


def prefix_body(S, prefix):
    for use_builder in (False, True):
        if use_builder:
            b = JSONSchemaBuilder(all_refs=True, ref_prefix=prefix)
            st, schema = call(lambda: b.build(S.family))
            defs = None if st == "exc" else {k: 1 for k in b.context.definitions}
        else:
            st, schema = call(lambda: build_json_schema(S.family, all_refs=True, ref_prefix=prefix))
            defs = None
        if st == "exc":
            return fail("C20/build-raised:%s" % type(schema).__name__, prefix=prefix, exc=schema)
        ok = prefix_check(schema, prefix, defs)
        if ok is not True:
            return ok
    return True


def prefix_check(schema, prefix, defs):
    doc = schema.to_dict()
    if defs is not None:
        doc = dict(doc)
        doc["$defs"] = defs
    refs = []
    refs_of(doc, refs)
    want = prefix.rstrip("/")
    for r in refs:
        if not r.startswith(want + "/"):
            return fail("C20/ref-without-prefix", ref=r, prefix=prefix)
        if r[len(want) + 1:] not in (doc.get("$defs") or {}):
            return fail("C20/dangling-ref", ref=r, prefix=prefix)
    return len(refs) > 0


def main(S, env):
    return {"cube": cube_main, "seq": seq_main, "doc": doc_main, "prefix": prefix_main}[S.variant](S, env)


def twin(S, env):
    if S.variant == "cube":
        c = S.node.make(env)
        if not (c["omit_default"] and c["omit_none"] and c["all_refs"]):
            return True
    elif S.variant == "seq":
        names, all_refs, oapi = S.node.make(env)
        if len(names) != 3 or not all_refs:
            return True
    elif S.variant == "doc":
        for k in ("const", "properties"):
            if S.node.flags[k] is not None and not env[S.node.flags[k]]:
                return True
        if S.node.flags["const"] is not None and not env[S.node.const_none]:
            return True
    elif S.variant == "prefix":
        if not S.node.make(env).endswith("//"):
            return True
    return not main(S, env)
