"""Shared harness-side helpers for property modules."""
import collections
import decimal
import re
import types

from vf.hlib import call, cf_guard, fail, notrace, pick


def region(ctx, env):
    """The 'interesting region' for the generic reachability twin: every length at its bound,
    every Optional non-None, every optional key present, every selector at its last member."""
    for name, ann, pre in ctx.vars:
        letter = re.sub(r"\d+$", "", name)[-1]
        v = env[name]
        if letter == "n":
            mx = int(re.search(r"<= (\d+)$", pre).group(1))
            if v != mx:
                return False
        elif letter == "z":
            if v:
                return False
        elif letter == "p":
            if not v:
                return False
        elif letter == "k":
            mx = int(re.search(r"< (\d+)$", pre).group(1))
            if v != mx - 1:
                return False
    return True


MUTABLE = (list, dict, set, bytearray, collections.deque, collections.OrderedDict,
           collections.defaultdict, collections.Counter, collections.ChainMap)


def same_classes(a, b):
    """Recursive type(a) is type(b) over containers and dataclass-like objects."""
    if type(a) is not type(b):
        return False
    if isinstance(a, (list, tuple, collections.deque)):
        if len(a) != len(b):
            return False
        for x, y in zip(a, b):
            if not same_classes(x, y):
                return False
        return True
    if isinstance(a, collections.ChainMap):
        return same_classes(a.maps, b.maps)
    if isinstance(a, (dict, types.MappingProxyType)):
        if len(a) != len(b):
            return False
        for k in a:
            if k not in b:
                return False
            if not same_classes(a[k], b[k]):
                return False
        return True
    if isinstance(a, (set, frozenset)):
        return {type(x) for x in a} == {type(x) for x in b}
    d = getattr(a, "__dict__", None)
    if isinstance(d, dict) and hasattr(type(a), "__dataclass_fields__"):
        for k in d:
            if not same_classes(d[k], getattr(b, k, None)):
                return False
    return True


def deep_eq(a, b):
    """Structural equality that treats NaN as equal to itself and requires identical classes."""
    if type(a) is not type(b):
        return False
    if isinstance(a, (float, decimal.Decimal)):
        return a == b or (a != a and b != b)
    if isinstance(a, (list, tuple, collections.deque)):
        if len(a) != len(b):
            return False
        for x, y in zip(a, b):
            if not deep_eq(x, y):
                return False
        return True
    if isinstance(a, collections.ChainMap):
        return deep_eq(a.maps, b.maps)
    if isinstance(a, (dict, types.MappingProxyType)):
        if len(a) != len(b):
            return False
        for k in a:
            if k not in b or not deep_eq(a[k], b[k]):
                return False
        return True
    if isinstance(a, (set, frozenset)):
        return a == b
    if hasattr(type(a), "__dataclass_fields__"):
        for k in type(a).__dataclass_fields__:
            if not deep_eq(getattr(a, k, None), getattr(b, k, None)):
                return False
        return True
    return a == b


def leaf_strings(T, limit=24):
    """Valid string encodings of pool values of every leaf type occurring in T (for parse positions)."""
    import dataclasses
    import typing

    from vf import oracle, symval, tinfo

    out = []
    seen = set()

    def walk(t, tv=None, depth=0):
        if depth > 6:
            return
        try:
            ti = tinfo.info(t, tv)
        except TypeError:
            return
        key = (ti.kind, repr(ti.type))
        k = ti.kind
        if k in symval.POOLS or k in ("ip", "path", "enum"):
            if key in seen:
                return
            seen.add(key)
            ctx, node = symval.make_plan(ti.type)
            for v in getattr(node, "values", [])[:3]:
                e = oracle.ref_encode(ti.type, v)
                if isinstance(e, str) and e not in out:
                    out.append(e)
            return
        if k == "literal":
            for lv in ti.args:
                if isinstance(lv, str) and lv not in out:
                    out.append(lv)
            return
        if k in ("optional", "union", "seq", "tuple_var", "map", "chainmap"):
            for a in ti.args:
                walk(a, tv, depth + 1)
        elif k == "tuple_fixed":
            for a in ti.args:
                if typing.get_origin(a) is typing.Unpack:
                    a = typing.get_args(a)[0]
                walk(a, tv, depth + 1)
        elif k == "dataclass":
            if key in seen:
                return
            seen.add(key)
            tv2 = dict(tv or {})
            tv2.update(ti.extra or {})
            for n, ft, f in tinfo.dc_fields(ti.type):
                walk(ft, tv2, depth + 1)
        elif k == "namedtuple":
            for n, ft in tinfo.nt_fields(ti.type):
                walk(ft, tinfo.scope(ti, tv), depth + 1)
        elif k == "typeddict":
            hints, req, opt = tinfo.td_keys(ti.type)
            for kk in hints:
                walk(hints[kk], tinfo.scope(ti, tv), depth + 1)

    walk(T)
    return out[:limit]


def key_universe(T, limit=3):
    """Concrete dict keys for arbitrary inputs: field names, aliases, TypedDict keys of T, then strangers."""
    import typing

    from vf import tinfo

    keys = []

    def add(k):
        if k not in keys:
            keys.append(k)

    def walk(t, tv=None, depth=0):
        if depth > 4:
            return
        try:
            ti = tinfo.info(t, tv)
        except TypeError:
            return
        k = ti.kind
        if k == "dataclass":
            for n, ft, f in tinfo.dc_fields(ti.type):
                a = f.metadata.get("alias")
                add(a or n)
        elif k == "typeddict":
            hints, req, opt = tinfo.td_keys(ti.type)
            for kk in hints:
                add(kk)
        elif k == "namedtuple":
            for n, ft in tinfo.nt_fields(ti.type):
                add(n)
        elif k in ("optional", "union", "seq", "tuple_var", "map", "chainmap", "tuple_fixed"):
            for a in ti.args:
                if typing.get_origin(a) is typing.Unpack:
                    a = typing.get_args(a)[0]
                walk(a, tv, depth + 1)

    walk(T)
    for s in ("k0", "5", "zz"):
        add(s)
    return keys[:limit]


def known_defect_suffix(T, d, real_result):
    """Classify a decode mismatch: does the real result equal the reference with the 'null union member swallows
    unmatched input' defect switched on?  Returns a signature suffix or None."""
    from vf import oracle

    st, o = call(oracle.ref_decode, T, d, None, oracle.NONE_FALLBACK)
    if st == "ok" and deep_eq(real_result, o):
        return "union-none-fallback"
    return None
