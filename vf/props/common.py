"""Shared harness-side helpers for property modules."""
import collections
import re
import types

from vf.hlib import call, cf_guard, fail, notrace, pick


def region(ctx, env):
    """The 'interesting region' for the generic reachability twin: every length at its bound,
    every Optional non-None, every optional key present, every selector at its last member."""
    for name, ann, pre in ctx.vars:
        letter = re.sub(r"\d+$", "", name)[-1]
        v = env[name]
        if letter == "n":
            mx = int(re.search(r"<= (\d+)$", pre).group(1))
            if v != mx:
                return False
        elif letter == "z":
            if v:
                return False
        elif letter == "p":
            if not v:
                return False
        elif letter == "k":
            mx = int(re.search(r"< (\d+)$", pre).group(1))
            if v != mx - 1:
                return False
    return True


MUTABLE = (list, dict, set, bytearray, collections.deque, collections.OrderedDict,
           collections.defaultdict, collections.Counter, collections.ChainMap)


def same_classes(a, b):
    """Recursive type(a) is type(b) over containers and dataclass-like objects."""
    if type(a) is not type(b):
        return False
    if isinstance(a, (list, tuple, collections.deque)):
        if len(a) != len(b):
            return False
        for x, y in zip(a, b):
            if not same_classes(x, y):
                return False
        return True
    if isinstance(a, collections.ChainMap):
        return same_classes(a.maps, b.maps)
    if isinstance(a, (dict, types.MappingProxyType)):
        if len(a) != len(b):
            return False
        for k in a:
            if k not in b:
                return False
            if not same_classes(a[k], b[k]):
                return False
        return True
    if isinstance(a, (set, frozenset)):
        return {type(x) for x in a} == {type(x) for x in b}
    d = getattr(a, "__dict__", None)
    if isinstance(d, dict) and hasattr(type(a), "__dataclass_fields__"):
        for k in d:
            if not same_classes(d[k], getattr(b, k, None)):
                return False
    return True
