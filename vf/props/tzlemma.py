"""Leaf lemma L-TZ (C01/C02/C03): for every sign and every 00:00 <= hh:mm <= 23:59,
parse_timezone('UTC' + sign + hh + ':' + mm) has offset sign*(60*hh + mm) minutes, i.e. it inverts tzname.
tzname itself is a C function: it is stubbed by its documented format, built from symbolic digits, and the stub is compared
with the real tzname on all 2879 whole-minute offsets at harness import."""
import datetime

from mashumaro.core.helpers import parse_timezone

from vf import symval
from vf.hlib import call, fail


class S_:
    pass


class Digits(symval.Node):
    def __init__(self, ctx):
        self.neg = ctx.new("b", "bool")
        self.d = [ctx.new("i", "int", "0 <= $ <= 9") for _ in range(4)]

    def make(self, env):
        return env[self.neg], [env[x] for x in self.d]


def make_input_plan(T, variant, **kw):
    ctx = symval.Ctx()
    return ctx, Digits(ctx)


def tzname_stub(neg, d):
    return "UTC" + ("-" if neg else "+") + str(d[0]) + str(d[1]) + ":" + str(d[2]) + str(d[3])


def setup(T, NODE, CTX, variant, **kw):
    S = S_()
    S.node, S.ctx, S.variant = NODE, CTX, variant
    # stub validation: the documented format equals the real tzname on every whole-minute offset
    n = 0
    for mins in range(-(23 * 60 + 59), 23 * 60 + 60):
        if mins == 0:
            continue
        a = abs(mins)
        h, m = divmod(a, 60)
        want = datetime.timezone(datetime.timedelta(minutes=mins)).tzname(None)
        got = tzname_stub(mins < 0, [h // 10, h % 10, m // 10, m % 10])
        if want != got:
            raise AssertionError("VF-STUB tzname stub %r != real %r" % (got, want))
        n += 1
    S.stub_checked = n
    return S


def main(S, env):
    neg, d = S.node.make(env)
    hh = d[0] * 10 + d[1]
    mm = d[2] * 10 + d[3]
    if hh > 23 or mm > 59:
        return True
    s = tzname_stub(neg, d)
    st, tz = call(parse_timezone, s)
    if st == "exc":
        return fail("C01/tz-lemma:parse-raised:%s" % type(tz).__name__, text=s, exc=tz)
    total = hh * 60 + mm
    want = datetime.timedelta(minutes=-total if neg else total)
    if tz.utcoffset(None) != want:
        sub = "negative-subhour" if (neg and hh == 0) else "other"
        return fail("C01/roundtrip-neq:tz-%s" % sub, text=s, got=tz.utcoffset(None), want=want)
    return True


def twin(S, env):
    neg, d = S.node.make(env)
    if not (neg and d[0] == 0 and d[1] == 0 and d[2] * 10 + d[3] > 0):
        return True
    return not main(S, env)
