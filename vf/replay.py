"""Replay one concrete harness call on the real code, untraced, in a fresh interpreter.
usage: replay.py <harness module path> '<func>(<args>)'
prints: VFREPLAY {"status": "ok", "result": true|false, "last": {...}}"""
import importlib.util
import json
import sys
import traceback


def main():
    path, call = sys.argv[1], sys.argv[2]
    import os
    sys.path.insert(0, os.path.dirname(os.path.dirname(os.path.abspath(__file__))))
    out = {}
    try:
        spec = importlib.util.spec_from_file_location("vf_harness_replay", path)
        mod = importlib.util.module_from_spec(spec)
        sys.modules["vf_harness_replay"] = mod
        spec.loader.exec_module(mod)
        from vf import hlib

        hlib.LAST.clear()
        ns = dict(vars(mod))
        ns.setdefault("nan", float("nan"))
        ns.setdefault("inf", float("inf"))
        res = eval(call, ns)
        out = {"status": "ok", "result": bool(res) if res is not None else None, "last": dict(hlib.LAST)}
    except Exception as e:
        out = {"status": "exception", "error": "%s: %s" % (type(e).__name__, e),
               "trace": traceback.format_exc()[-1500:]}
    print("VFREPLAY " + json.dumps(out, default=str))


if __name__ == "__main__":
    main()
