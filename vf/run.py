"""CLI: python -m vf.run <property> [quick|thorough]"""
import importlib
import os
import sys


def main():
    prop = sys.argv[1]
    tier = sys.argv[2] if len(sys.argv) > 2 else os.environ.get("VERIF_TIER", "quick")
    if tier not in ("quick", "thorough"):
        tier = "quick"
    seed = int(os.environ.get("VERIF_SEED", "0") or 0)
    mod = importlib.import_module("vf.checks." + prop.lower())
    rc = mod.run(tier, seed)
    sys.exit(rc)


if __name__ == "__main__":
    main()
