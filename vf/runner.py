"""Obligation runner: writes harness modules, runs CrossHair one process per condition
(16 in parallel), replays every counterexample on the real code in a fresh interpreter,
classifies, writes evidence."""
import concurrent.futures as cf
import hashlib
import json
import os
import re
import shutil
import subprocess
import sys
import time

# ROOT is where this copy of the framework lives (a `vp run` snapshot works from its own directory); the virtualenv is shared
ROOT = os.environ.get("VF_ROOT") or os.path.dirname(os.path.dirname(os.path.abspath(__file__)))
PY = "/verif/.venv/bin/python"
# development aid for evaluating seeded changes without touching /repo: VF_REPO=<worktree> makes that checkout shadow
# /repo on sys.path, VF_TAG=<tag> keeps work files, replays and evidence of such a run apart from the real ones
VF_REPO = os.environ.get("VF_REPO", "")
VF_TAG = os.environ.get("VF_TAG", "")
WORK = ROOT + "/.work" + ("/" + VF_TAG if VF_TAG else "")
OUT = WORK if VF_TAG else ROOT
PYPATH = (VF_REPO + ":" if VF_REPO else "") + ROOT
PLUGIN = ROOT + "/vf/plugin_stats.py"
EXIT_HARNESS_ERROR = 3
T0_OVERRIDE = None  # engines that do their work before calling run_property set this for an honest wall time


class Harness:
    """One generated module. conds: list of (function_name, kind) with kind in
    'main' (must be Confirmed) or 'twin' (reachability witness: must be refuted and replay)."""

    def __init__(self, name, source, conds, meta=None, timeout=None):
        self.name = name
        self.source = source
        self.conds = conds
        self.meta = meta or {}
        self.timeout = timeout


def _line_of(source, func):
    for i, ln in enumerate(source.splitlines(), 1):
        if ln.startswith("def %s(" % func):
            return i + 1  # a line inside the def
    raise KeyError(func)


_MSG = re.compile(r"^(?P<file>[^:]+):(?P<line>\d+): (?P<sev>error|info|warning): (?P<msg>.*)$")


def _parse_call(msg):
    m = re.search(r"when calling (\w+\(.*)$", msg, re.S)
    if not m:
        return None
    call = m.group(1)
    j = call.rfind(" (which returns")
    if j >= 0:
        call = call[:j]
    return call.strip()


def run_crosshair(path, func, line, timeout):
    cmd = [PY, "-m", "crosshair", "check", "%s:%d" % (path, line), "--report_all",
           "--analysis_kind=PEP316", "--per_condition_timeout", str(timeout), "--extra_plugin", PLUGIN]
    env = dict(os.environ)
    env["PYTHONPATH"] = PYPATH
    env["PYTHONHASHSEED"] = "0"
    env["VF_UNDER_CROSSHAIR"] = "1"
    t0 = time.time()
    try:
        p = subprocess.run(cmd, capture_output=True, text=True, timeout=timeout * 3 + 120, env=env,
                           cwd=os.path.dirname(path))
        out, err, rc = p.stdout, p.stderr, p.returncode
    except subprocess.TimeoutExpired as e:
        out = (e.stdout or b"").decode() if isinstance(e.stdout, bytes) else (e.stdout or "")
        err = "WALL TIMEOUT"
        rc = -9
    wall = time.time() - t0
    res = {"func": func, "rc": rc, "wall": round(wall, 2), "verdict": "inconclusive", "msg": "",
           "call": None, "paths": 0, "smt_checks": 0, "smt_time": 0.0}
    m = re.search(r"VFSTATS paths=(\d+) smt_checks=(\d+) smt_time=([\d.]+)", err or "")
    if m:
        res["paths"], res["smt_checks"], res["smt_time"] = int(m.group(1)), int(m.group(2)), float(m.group(3))
    # multi-line messages: join everything after the first match
    text = out.strip()
    first = None
    for ln in text.splitlines():
        mm = _MSG.match(ln)
        if mm:
            first = mm
            break
    if first is None:
        res["msg"] = "no verdict line; rc=%s; stderr tail: %s" % (rc, (err or "")[-600:])
        return res
    idx = text.find(first.group(0))
    msg = text[idx + len(first.group(0)) - len(first.group("msg")):]
    res["msg"] = msg[:2000]
    if first.group("sev") == "info":
        if msg.startswith("Confirmed over all paths"):
            res["verdict"] = "confirmed"
        else:
            res["verdict"] = "inconclusive"
    else:
        res["verdict"] = "refuted"
        res["call"] = _parse_call(msg)
        if res["call"] is None:
            res["verdict"] = "inconclusive"
    return res


def replay_call(path, call, timeout=300):
    """Execute the concrete call in a fresh, untraced interpreter."""
    cmd = [PY, ROOT + "/vf/replay.py", path, call]
    env = dict(os.environ)
    env["PYTHONPATH"] = PYPATH
    env.pop("VF_UNDER_CROSSHAIR", None)
    try:
        p = subprocess.run(cmd, capture_output=True, text=True, timeout=timeout, env=env,
                           cwd=os.path.dirname(path))
    except subprocess.TimeoutExpired:
        return {"status": "error", "error": "replay timeout"}
    for ln in reversed(p.stdout.splitlines()):
        if ln.startswith("VFREPLAY "):
            return json.loads(ln[len("VFREPLAY "):])
    return {"status": "error", "error": "no replay output: %s" % (p.stderr[-800:],)}


def load_known(prop):
    try:
        with open(ROOT + "/known_findings.json") as f:
            data = json.load(f)
    except FileNotFoundError:
        return []
    return [e for e in data.get("entries", []) if e.get("property") == prop and e.get("status") == "finding"]


def run_property(prop, harnesses, tier, seed, timeout, bounds, assumptions, functions_note=None,
                 extra_cov=None, extra_results=None, jobs=16):
    """extra_results: list of dicts from non-CrossHair engines (direct z3), each
    {name, verdict in confirmed|refuted|inconclusive, kind main|twin, replay: {...}|None, sig, detail, smt_checks, smt_time}"""
    t_start = T0_OVERRIDE or time.time()
    wd = os.path.join(WORK, prop)
    shutil.rmtree(wd, ignore_errors=True)
    os.makedirs(wd, exist_ok=True)
    os.makedirs(OUT + "/replays", exist_ok=True)
    for fn in os.listdir(OUT + "/replays"):
        if fn.startswith(prop + "-"):
            os.remove(os.path.join(OUT + "/replays", fn))
    os.makedirs(OUT + "/evidence", exist_ok=True)
    tasks = []
    only = os.environ.get("VF_ONLY")
    if only:
        harnesses = [h for h in harnesses if re.search(only, h.name)]
    for h in harnesses:
        path = os.path.join(wd, h.name + ".py")
        with open(path, "w") as f:
            f.write(h.source)
        for func, kind in h.conds:
            tasks.append((h, path, func, kind, _line_of(h.source, func)))

    results = []
    with cf.ThreadPoolExecutor(max_workers=jobs) as ex:
        futs = {ex.submit(run_crosshair, path, func, line, h.timeout or timeout): (h, path, func, kind)
                for h, path, func, kind, line in tasks}
        for fu in cf.as_completed(futs):
            h, path, func, kind = futs[fu]
            r = fu.result()
            r.update({"harness": h.name, "kind": kind, "path": path})
            results.append(r)

    # replay all counterexamples
    def do_replay(r):
        if r["verdict"] == "refuted":
            r["replay"] = replay_call(r["path"], r["call"])
        return r

    with cf.ThreadPoolExecutor(max_workers=jobs) as ex:
        results = list(ex.map(do_replay, results))

    known = load_known(prop)
    known_hit = {}
    violations = []
    harness_errors = []
    inconclusive = []
    discharged = 0
    replays_ok = 0
    by_h = {}
    for r in results:
        by_h.setdefault(r["harness"], []).append(r)
    for r in results:
        kind = r["kind"]
        if kind == "twin":
            if r["verdict"] == "refuted":
                rp = r["replay"]
                if rp.get("status") == "ok" and rp.get("result") is False:
                    replays_ok += 1
                    r["final"] = "witness"
                else:
                    r["final"] = "harness_error"
                    harness_errors.append(r)
            else:
                r["final"] = "vacuous_or_inconclusive"
                inconclusive.append(r)
        else:
            if r["verdict"] == "confirmed":
                r["final"] = "discharged"
            elif r["verdict"] == "refuted":
                rp = r["replay"]
                if rp.get("status") == "ok" and rp.get("result") is False:
                    replays_ok += 1
                    sig = (rp.get("last") or {}).get("sig") or "unclassified"
                    r["sig"] = sig
                    hit = [k for k in known if k["signature"] == sig]
                    if hit:
                        r["final"] = "known"
                        known_hit.setdefault(sig, (hit[0], r))
                    else:
                        r["final"] = "violation"
                        violations.append(r)
                else:
                    r["final"] = "harness_error"
                    harness_errors.append(r)
            else:
                r["final"] = "inconclusive"
                inconclusive.append(r)
    # a twin that cannot be refuted next to a main obligation with a replayed counterexample is not vacuity: the replayed
    # counterexample itself reached the assertion (e.g. a recorded finding that rejects every value of the schema)
    for hname, rs in by_h.items():
        if any(x["kind"] == "main" and x.get("final") in ("known", "violation") for x in rs):
            for x in rs:
                if x["kind"] == "twin" and x.get("final") == "vacuous_or_inconclusive":
                    x["final"] = "not_needed(main has a replayed counterexample)"
                    inconclusive.remove(x)
    # a main obligation counts as discharged only if all twins of its harness are witnesses
    for hname, rs in by_h.items():
        twins_ok = all(x["final"] == "witness" for x in rs if x["kind"] == "twin")
        for x in rs:
            if x["kind"] == "main" and x["final"] == "discharged":
                if twins_ok:
                    discharged += 1
                else:
                    x["final"] = "inconclusive(twin)"
                    inconclusive.append(x)

    for er in extra_results or []:
        results.append(er)
        if er.get("final") == "discharged":
            discharged += 1
        elif er.get("final") == "violation":
            hit = [k for k in known if k["signature"] == er.get("sig")]
            if hit:
                er["final"] = "known"
                known_hit.setdefault(er["sig"], (hit[0], er))
            else:
                violations.append(er)
        elif er.get("final") == "known":
            pass
        elif er.get("final") == "harness_error":
            harness_errors.append(er)
        elif er.get("final") == "witness":
            pass
        else:
            inconclusive.append(er)
        replays_ok += er.get("replays", 0)

    main_count = sum(1 for r in results if r.get("kind") == "main")
    paths = sum(r.get("paths", 0) for r in results)
    smt = sum(r.get("smt_checks", 0) for r in results)
    smt_time = sum(r.get("smt_time", 0.0) for r in results)

    for sig, (k, r) in sorted(known_hit.items()):
        print("KNOWN-FINDING: property=%s %s %s" % (prop, sig, k.get("what", "")))
    vio_lines = []
    seen_sig = set()
    for r in violations:
        sig = r.get("sig", "unclassified")
        payload = {"property": prop, "signature": sig, "harness": r.get("harness"), "function": r.get("func"),
                   "call": r.get("call"), "replay": r.get("replay"), "module": r.get("path"),
                   "message": r.get("msg", "")[:800], "detail": r.get("detail")}
        hsh = hashlib.sha1(json.dumps(payload, sort_keys=True, default=str).encode()).hexdigest()[:10]
        rp = "%s/replays/%s-%s.json" % (OUT, prop, hsh)
        # keep the harness module next to the replay so it can be re-executed later
        if r.get("path") and os.path.exists(r["path"]):
            keep = "%s/replays/%s-%s.py" % (OUT, prop, hsh)
            shutil.copy(r["path"], keep)
            payload["module_copy"] = keep
        with open(rp, "w") as f:
            json.dump(payload, f, indent=1, default=str)
        if sig not in seen_sig or len(vio_lines) < 20:
            vio_lines.append("VIOLATION property=%s replay=%s" % (prop, rp))
        seen_sig.add(sig)
    for ln in vio_lines:
        print(ln)
    for r in inconclusive:
        print("INCONCLUSIVE property=%s %s.%s: %s" % (prop, r.get("harness"), r.get("func", r.get("name")),
                                                       (r.get("msg") or "")[:160].replace("\n", " ")))
    for r in harness_errors:
        print("HARNESS-ERROR property=%s %s.%s call=%s replay=%s msg=%s" % (
            prop, r.get("harness"), r.get("func", r.get("name")), r.get("call"), r.get("replay"),
            (r.get("msg") or "")[:300].replace("\n", " ")))

    samples = []
    for r in sorted(results, key=lambda x: (x.get("harness") or "", x.get("func") or ""))[:400]:
        s = {"obligation": "%s.%s" % (r.get("harness"), r.get("func", r.get("name"))), "kind": r.get("kind"),
             "verdict": r.get("final"), "paths": r.get("paths", 0), "smt_checks": r.get("smt_checks", 0),
             "cpu_wall_s": r.get("wall")}
        if r.get("call"):
            s["model"] = r["call"][:300]
        if r.get("sig"):
            s["signature"] = r["sig"]
        samples.append(s)
    hmeta = [dict(name=h.name, **h.meta) for h in harnesses][:400]
    wall = time.time() - t_start
    cov = {
        "states": max(paths, 1),
        "transitions": max(smt, 1),
        "traces_validated_against_impl": replays_ok,
        "samples": samples[:60] or [{"note": "no obligations"}],
        "obligations": main_count,
        "discharged": discharged,
        "inconclusive": len(inconclusive),
        "known_findings_hit": sorted(known_hit),
        "solver_time_s": round(smt_time, 3),
        "programs": len(harnesses),
        "harnesses": hmeta,
        "bounds": bounds,
        "functions_encoded": functions_note or [],
        "explanation": "states = execution paths explored by CrossHair (StateSpace instances); transitions = "
                       "z3 Solver.check calls discharged; traces_validated = solver models replayed on the real "
                       "code in a fresh interpreter (reachability twins and counterexamples).",
        "exhaustive": False,
    }
    if extra_cov:
        cov.update(extra_cov)
    ev = {
        "property_id": prop, "tier": tier, "seed": seed, "level": "model_checking", "coverage": cov,
        "assumptions": assumptions, "wall_s": round(wall, 2), "violations": len(violations),
    }
    with open("%s/evidence/%s.json" % (OUT, prop), "w") as f:
        json.dump(ev, f, indent=1, default=str)
    print("SUMMARY property=%s tier=%s obligations=%d discharged=%d inconclusive=%d known=%d violations=%d "
          "harness_errors=%d paths=%d smt=%d smt_time=%.1fs wall=%.0fs" % (
              prop, tier, main_count, discharged, len(inconclusive), len(known_hit), len(violations),
              len(harness_errors), paths, smt, smt_time, wall))
    if violations:
        return 1
    if harness_errors:
        return EXIT_HARNESS_ERROR
    return 0
