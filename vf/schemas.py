"""The enumerated dimension: schema grammar (programs). Schemas are source text because the
harness modules must build the real classes with the real generator at import."""
import itertools
import random


class Schema:
    def __init__(self, name, texpr, prelude="", tags=()):
        self.name = name
        self.texpr = texpr
        self.prelude = prelude
        self.tags = set(tags)

    def __repr__(self):
        return "Schema(%s: %s)" % (self.name, self.texpr)


COMMON_PRELUDE = '''
class Color(Enum):
    RED = "red"
    GREEN = "green"

class Num(Enum):
    ONE = 1
    TWO = 2

class IE(IntEnum):
    A = 1
    B = 5

class Flg(Flag):
    X = 1
    Y = 2
    Z = 4

class IFlg(IntFlag):
    P = 1
    Q = 2

UserId = NewType("UserId", int)

class NT(NamedTuple):
    a: int
    b: str = "dflt"

class TDict(TypedDict):
    a: int
    b: NotRequired[str]

class TDictNT(TypedDict, total=False):
    a: int
    b: Required[Optional[int]]

@dataclass
class Plain:
    a: int
    b: Optional[str] = None

@dataclass
class Mix(DataClassDictMixin):
    a: int
    t: Tuple[int, str] = (1, "x")
    o: Optional[int] = None

@dataclass
class Inh(Mix):
    c: bool = False

TV = TypeVar("TV")

@dataclass
class Gen(Generic[TV], DataClassDictMixin):
    g: TV
    gs: List[TV] = field(default_factory=list)

class NTO(NamedTuple):
    a: int
    o: Optional[int] = None
    d: Optional[datetime.date] = None

class TDO(TypedDict):
    a: int
    o: Optional[int]
    d: NotRequired[Optional[datetime.date]]

PA = TypeVar("PA")
PB = TypeVar("PB")

type OptDateAlias = datetime.date | None
NOptDate = NewType("NOptDate", Optional[datetime.date])

@dataclass
class Pair(Generic[PA, PB], DataClassDictMixin):
    first: PA
    second: PB

@dataclass
class OuterG(Generic[TV], DataClassDictMixin):
    p: Pair[TV, List[TV]]
    q: Optional[Pair[TV, TV]] = None

@dataclass
class HoldOpt(DataClassDictMixin):
    nt: Optional[NTO] = None
    td: Optional[TDO] = None
    tv: Optional[Tuple[Optional[int], ...]] = None
    tf: Optional[Tuple[int, Optional[datetime.date]]] = None

@dataclass
class OptD(DataClassDictMixin):
    due: Optional[datetime.date] = datetime.date(2000, 1, 1)
    r: Optional[int] = 0
    tags: Optional[List[str]] = field(default_factory=list)
    s: Optional[str] = ""

@dataclass
class SelfRef(DataClassDictMixin):
    v: datetime.date
    b: bytes = b"x"
    n: Optional[int] = None
    nxt: Optional[Self] = None

from mashumaro.mixins.toml import DataClassTOMLMixin as _TomlMixin
from mashumaro.mixins.msgpack import DataClassMessagePackMixin as _MsgpackMixin
from mashumaro.mixins.orjson import DataClassORJSONMixin as _OrjsonMixin

@dataclass
class SelfT(_TomlMixin):
    v: datetime.date
    n: Optional[int] = None
    nxt: Optional[Self] = None

@dataclass
class SelfM(_MsgpackMixin):
    v: datetime.date
    b: bytes = b"x"
    nxt: Optional[Self] = None

@dataclass
class SelfO(_OrjsonMixin):
    v: datetime.date
    u: UUID = UUID(int=1)
    nxt: Optional[Self] = None

@dataclass
class Lvl1(DataClassDictMixin):
    a: int
    p: int

@dataclass
class Lvl2(Lvl1):
    p: int = 7

@dataclass
class Lvl3(Lvl2):
    z: int = 0

class GNT(NamedTuple, Generic[TV]):
    x: TV
    xs: List[TV]
    o: Optional[TV] = None

class GTD(TypedDict, Generic[TV]):
    x: TV
    m: Dict[str, TV]
    o: NotRequired[Optional[TV]]

class GN2(NamedTuple, Generic[TV]):
    x: TV
    o: Optional[TV] = None

class GT2(TypedDict, Generic[TV]):
    x: TV

@dataclass
class HoldGen(Generic[TV], DataClassDictMixin):
    nt: GN2[TV]
    td: Optional[GT2[List[TV]]] = None

class SEnum(enum.StrEnum):
    A = "a"
    B = "b"

TVB = TypeVar("TVB", bound=datetime.date)
TVC = TypeVar("TVC", int, datetime.date)

@dataclass
class GenB(Generic[TVB], DataClassDictMixin):
    b: TVB
    bs: List[TVB] = field(default_factory=list)

@dataclass
class GenC(Generic[TVC], DataClassDictMixin):
    c: TVC
    cs: Tuple[TVC, ...] = ()

@dataclass(slots=True)
class Slotted(DataClassDictMixin):
    a: int
    d: Optional[datetime.date] = None
    xs: List[int] = field(default_factory=list)

@dataclass(frozen=True)
class Frozen(DataClassDictMixin):
    a: int
    u: UUID = UUID(int=2)

@dataclass
class Bag(SerializableType, use_annotations=True):
    items: List[datetime.date]
    n: int = 0

    def _serialize(self) -> Tuple[int, List[datetime.date]]:
        return (self.n, self.items)

    @classmethod
    def _deserialize(cls, value: Tuple[int, List[datetime.date]]) -> "Bag":
        return cls(value[1], value[0])

class SType(SerializableType):
    def __init__(self, v):
        self.v = v
    def _serialize(self):
        return [self.v]
    @classmethod
    def _deserialize(cls, value):
        return cls(value[0])
    def __eq__(self, other):
        return type(other) is SType and other.v == self.v
    def __hash__(self):
        return hash(self.v)
'''

# leaf texprs -> tags
LEAVES = [
    ("int", "int", ()), ("float", "float", ()), ("bool", "bool", ()), ("str", "str", ()),
    ("none", "type(None)", ()), ("any", "Any", ("any",)),
    ("bytes", "bytes", ()), ("bytearray", "bytearray", ()),
    ("datetime", "datetime.datetime", ()), ("date", "datetime.date", ()), ("time", "datetime.time", ()),
    ("timedelta", "datetime.timedelta", ()), ("timezone", "datetime.timezone", ()),
    ("zoneinfo", "ZoneInfo", ()), ("uuid", "UUID", ()), ("decimal", "Decimal", ()),
    ("fraction", "Fraction", ()), ("ip4", "IPv4Address", ()), ("ip6n", "IPv6Network", ()),
    ("ip4i", "IPv4Interface", ()), ("path", "PurePosixPath", ()), ("pattern", "Pattern", ("lossy_eq",)),
    ("color", "Color", ()), ("num", "Num", ()), ("intenum", "IE", ()), ("flag", "Flg", ()),
    ("intflag", "IFlg", ()), ("lit", 'Literal["a", 2, True, None]', ()), ("litenum", "Literal[Color.RED, Num.TWO]", ()),
    ("newtype", "UserId", ()), ("nt", "NT", ()), ("td", "TDict", ()), ("tdnt", "TDictNT", ()),
    ("plain", "Plain", ()), ("mix", "Mix", ()), ("inh", "Inh", ()), ("gen_int", "Gen[int]", ()),
    ("gen_date", "Gen[datetime.date]", ()), ("optd", "OptD", ()), ("selfref", "SelfRef", ()), ("lvl3", "Lvl3", ()),
    ("nto", "NTO", ()), ("tdo", "TDO", ()), ("outerg_date", "OuterG[datetime.date]", ()), ("outerg_int", "OuterG[int]", ()),
    ("self_toml", "SelfT", ("fmtself:toml",)), ("self_msgpack", "SelfM", ("fmtself:msgpack",)),
    ("self_orjson", "SelfO", ("fmtself:orjson",)),
]
# SerializableType leaf kept separate (oracle treats it by its own methods)
CTORS = [
    ("opt", "Optional[{X}]", ()), ("list", "List[{X}]", ()), ("set", "Set[{X}]", ("hash",)),
    ("fset", "FrozenSet[{X}]", ("hash",)), ("deque", "Deque[{X}]", ()), ("seq", "Sequence[{X}]", ()),
    ("tvar", "Tuple[{X}, ...]", ()), ("tfix", "Tuple[int, {X}]", ()),
    ("tstar", "Tuple[{X}, Unpack[Tuple[int, ...]], str]", ()),
    ("tstar2", "Tuple[Unpack[Tuple[{X}, int]], bool]", ()),
    ("dict", "Dict[str, {X}]", ()), ("dictint", "Dict[int, {X}]", ()), ("mapping", "Mapping[str, {X}]", ()),
    ("odict", "OrderedDict[str, {X}]", ()), ("ddict", "DefaultDict[str, {X}]", ()),
    ("chain", "ChainMap[str, {X}]", ()), ("mproxy", "MappingProxyType[str, {X}]", ()),
    ("uni", "Union[int, {X}]", ("union",)), ("ann", "Annotated[{X}, 'meta']", ()),
    ("final", "Final[{X}]", ("fieldonly",)),
]
UNHASHABLE = {"stype_ann", "any", "nt", "td", "tdnt", "plain", "mix", "inh", "gen_int", "gen_date", "bytearray", "pattern", "none", "optd",
              "selfref", "lvl3", "self_toml", "self_msgpack", "self_orjson", "nto", "tdo", "outerg_date", "outerg_int"}
# union with int: members whose wire form is int/bool/float/str-compatible are lossy
UNION_LOSSY = {"int", "bool", "float", "any", "intenum", "intflag", "num", "newtype", "timedelta", "none", "lit",
               "flag", "litenum"}
D2_LEAVES = ["int", "date", "mix", "str", "color"]
EXTRA = [
    # Optional behind wrappers that do not change the admitted values
    ("ann_opt_date", "Annotated[Optional[datetime.date], 'm']", ()), ("alias_opt_date", "OptDateAlias", ()),
    ("newtype_opt_date", "NOptDate", ()), ("ann_alias_opt", "List[Annotated[OptDateAlias, 'm']]", ()),
    ("uni_alias_opt", "Union[OptDateAlias, int]", ()),
    # PEP 646: fixed items before and after the variadic part (two and three trailing items: index arithmetic of the tail)
    ("tstar_tail2", "Tuple[int, Unpack[Tuple[str, ...]], bool, float]", ()),
    ("tstar_tail3", "Tuple[Unpack[Tuple[int, ...]], str, datetime.date, bool]", ()),
    ("tstar_fixed", "Tuple[int, Unpack[Tuple[str, datetime.date]], float]", ()),
    ("counter", "Counter[str]", ()),
    ("uni_is", "Union[int, str]", ()),
    ("uni_isn", "Union[int, str, None]", ()),
    ("uni_dict_list", "Union[Dict[str, int], List[int]]", ()),
    ("uni_list_dict", "Union[List[int], Dict[str, int]]", ("lossy_union",)),
    ("uni_dc", "Union[Mix, Plain]", ("lossy_union",)),
    ("uni_date_n_int", "Union[int, None, datetime.date]", ()),
    ("opt_uni", "Optional[Union[int, str]]", ()),
    ("dict_enum_key", "Dict[Color, int]", ()),
    ("dict_date_key", "Dict[datetime.date, int]", ()),
    ("list_opt_list", "List[Optional[List[int]]]", ()),
    ("nested_map", "Dict[str, List[Dict[str, int]]]", ()),
    ("stype", "SType", ("stype",)),
    ("list_stype", "List[SType]", ("stype",)),
    # use_annotations=True: the value handed to / returned by the user methods is converted according to their annotations
    ("stype_ann", "Bag", ("stype",)), ("opt_stype_ann", "Optional[Bag]", ("stype", "thorough")),
    ("gen_opt", "Gen[Optional[str]]", ()),
    ("tvar_opt", "Tuple[Optional[int], ...]", ()), ("tfix_opt", "Tuple[int, Optional[datetime.date]]", ()),
    ("opt_tvar_opt", "Optional[Tuple[Optional[int], ...]]", ()), ("list_opt_date", "List[Optional[datetime.date]]", ()),
    ("dict_opt", "Dict[str, Optional[int]]", ()), ("opt_nto", "Optional[NTO]", ()), ("opt_tdo", "Optional[TDO]", ()),
    ("opt_tfix_opt", "Optional[Tuple[int, Optional[datetime.date]]]", ()),
    # generic NamedTuple / TypedDict specialisations (type parameters in nested positions), also below a generic dataclass
    ("gnt_date", "GNT[datetime.date]", ()), ("gtd_date", "GTD[datetime.date]", ()), ("gnt_int", "GNT[int]", ("thorough",)),
    ("holdgen_date", "HoldGen[datetime.date]", ()), ("list_gnt", "List[GNT[datetime.date]]", ("thorough",)),
    ("opt_gtd", "Optional[GTD[UUID]]", ("thorough",)),
    # bound / constrained type variables, specialised and bare
    ("genb_date", "GenB[datetime.date]", ("thorough",)), ("genc_date", "GenC[datetime.date]", ()),
    ("genc_int", "GenC[int]", ("thorough",)),
    ("slotted", "Slotted", ()), ("frozen", "Frozen", ("thorough",)), ("list_slotted", "List[Slotted]", ("thorough",)),
    # leaves of the registry not in the main leaf list
    ("strenum", "SEnum", ()), ("litstr", "LiteralString", ()), ("ip6", "IPv6Address", ("thorough",)), ("ip4n", "IPv4Network", ("thorough",)),
    ("ip6i", "IPv6Interface", ("thorough",)), ("purepath", "PurePath", ("thorough",)), ("cpath", "Path", ("thorough",)),
    ("pwin", "pathlib.PureWindowsPath", ()),
    ("aset", "AbstractSet[datetime.date]", ()), ("mset", "typing.MutableSet[int]", ("thorough",)),
    ("mseq", "typing.MutableSequence[datetime.date]", ("thorough",)), ("mmap", "MutableMapping[str, datetime.date]", ()),
    ("coll_abc_seq", "collections.abc.Sequence[datetime.date]", ("thorough",)), ("pep585", "dict[str, list[datetime.date]]", ("thorough",)),
    ("pep604", "list[int | None] | None", ()), ("dict_uuid_key", "Dict[UUID, datetime.date]", ("thorough",)),
    ("tuple_empty", "Tuple[()]", ()),
    ("tuple_bare", "tuple", ("any",)),
    ("list_bare", "list", ("any",)),
    ("dict_bare", "dict", ("any",)),
]


def _dev(xs):
    """development aid: VF_SCHEMAS=<regex> restricts every schema list before harnesses are generated"""
    import os
    import re
    pat = os.environ.get("VF_SCHEMAS")
    return [x for x in xs if re.search(pat, x.name)] if pat else xs


def leaf_schemas():
    return _dev([Schema("L_" + n, t, COMMON_PRELUDE, tags) for n, t, tags in LEAVES])


def _ok(cn, ctags, ln, ltags):
    if "hash" in ctags and ln in UNHASHABLE:
        return False
    if "union" in ctags and ln in UNION_LOSSY:
        return False
    return True


def depth2(leaves=None):
    out = []
    lmap = {n: (t, tags) for n, t, tags in LEAVES}
    for cn, ct, ctags in CTORS:
        for ln in (leaves or [n for n, _, _ in LEAVES]):
            lt, ltags = lmap[ln]
            if not _ok(cn, ctags, ln, ltags):
                continue
            out.append(Schema("C_%s_%s" % (cn, ln), ct.replace("{X}", lt), COMMON_PRELUDE,
                              set(ctags) | set(ltags)))
    return _dev(out)


def depth3(seed, count):
    lmap = {n: (t, tags) for n, t, tags in LEAVES}
    combos = []
    for (c1, t1, g1), (c2, t2, g2) in itertools.product(CTORS, CTORS):
        if "fieldonly" in g2 or "fieldonly" in g1:
            continue
        for ln in D2_LEAVES:
            lt, ltags = lmap[ln]
            if not _ok(c2, g2, ln, ltags):
                continue
            inner_hashable = c2 in ("fset", "tvar", "tfix", "opt", "ann") and ln not in UNHASHABLE
            if "hash" in g1 and not inner_hashable:
                continue
            if "union" in g1 and c2 in ("opt", "uni", "ann"):
                continue
            if "union" in g1 and c2 in ("list", "set", "fset", "deque", "seq", "tvar", "tfix", "tstar", "tstar2"):
                # sequences share the list wire form only with each other: one seq member is fine
                pass
            combos.append(Schema("D_%s_%s_%s" % (c1, c2, ln), t1.replace("{X}", t2.replace("{X}", lt)),
                                 COMMON_PRELUDE, set(g1) | set(g2) | set(ltags)))
    rnd = random.Random(seed)
    rnd.shuffle(combos)
    return _dev(combos[:count])


def extras(tier="thorough"):
    """entries tagged ``thorough`` are left to the thorough tier"""
    return _dev([Schema("X_" + n, t, COMMON_PRELUDE, tags) for n, t, tags in EXTRA
                 if tier != "quick" or "thorough" not in tags])


def grammar(tier, seed):
    """quick: all leaves, every constructor over a reduced leaf set, extras, a seeded slice of depth 3.
    thorough: full depth-2 cross product + a larger depth-3 slice."""
    if tier == "quick":
        s = leaf_schemas() + depth2(D2_LEAVES[:3]) + extras("quick") + depth3(seed, 12)
    else:
        s = leaf_schemas() + depth2() + extras() + depth3(seed, 150)
    seen = set()
    out = []
    for x in s:
        if x.name not in seen:
            seen.add(x.name)
            out.append(x)
    return out
