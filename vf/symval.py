"""Plans: compile a type hint into (a) a flat list of symbolic scalar parameters and
(b) a builder that assembles a conforming value of the real classes from them.

Only run-time data is symbolic: ints, strs, bools, floats, None-ness, lengths, union
member / pool selectors, key presence.  Containers are real objects; dict keys are
concrete.  Values of C-implemented leaf types come from boundary pools via a selector."""
import collections
import datetime
import decimal
import fractions
import ipaddress
import pathlib
import re
import types
import typing
import uuid
import zoneinfo

from . import tinfo
from .hlib import pick

UTC = datetime.timezone.utc


def tz(minutes):
    return datetime.timezone(datetime.timedelta(minutes=minutes))


POOLS = {
    "bytes": [b"", b"a", b"\x00\xff", b"hello world, this is more than 57 bytes of payload to force a wrap!"],
    "bytearray": [bytearray(b""), bytearray(b"ab"), bytearray(b"\x00\x01\x02")],
    "datetime": [
        datetime.datetime(2020, 1, 2, 3, 4, 5),
        datetime.datetime(1999, 12, 31, 23, 59, 59, 999999),
        datetime.datetime(2021, 6, 7, 8, 9, 10, tzinfo=UTC),
        datetime.datetime(2021, 6, 7, 8, 9, 10, 123, tzinfo=tz(-330)),
        datetime.datetime(1, 1, 1, 0, 0),
    ],
    "date": [datetime.date(2020, 2, 29), datetime.date(1, 1, 1), datetime.date(9999, 12, 31)],
    "time": [datetime.time(0, 0), datetime.time(23, 59, 59, 999999), datetime.time(1, 2, 3, tzinfo=tz(60))],
    "timedelta": [
        datetime.timedelta(0), datetime.timedelta(seconds=1.5), datetime.timedelta(days=-1, seconds=3),
        datetime.timedelta(days=3, hours=4, microseconds=250000), datetime.timedelta(microseconds=-500000),
    ],
    "timezone": [UTC, tz(180), tz(-30), tz(-90), tz(-60), tz(45), tz(23 * 60 + 59), tz(-(23 * 60 + 59))],
    "zoneinfo": [zoneinfo.ZoneInfo("UTC")],
    "uuid": [uuid.UUID(int=0), uuid.UUID("12345678-1234-5678-1234-567812345678")],
    "decimal": [decimal.Decimal("0"), decimal.Decimal("-1.50"), decimal.Decimal("1E+3"), decimal.Decimal("0.000001")],
    "fraction": [fractions.Fraction(0), fractions.Fraction(-1, 3), fractions.Fraction(7, 1)],
    "pattern": [re.compile("a+b"), re.compile("")],
}
IP_POOLS = {
    ipaddress.IPv4Address: ["127.0.0.1", "0.0.0.0"],
    ipaddress.IPv6Address: ["::1", "2001:db8::1"],
    ipaddress.IPv4Network: ["10.0.0.0/8", "192.168.1.0/24"],
    ipaddress.IPv6Network: ["2001:db8::/32"],
    ipaddress.IPv4Interface: ["10.0.0.1/8"],
    ipaddress.IPv6Interface: ["2001:db8::1/32"],
}
KEY_POOL = {"str": ["k0", "k1"], "int": [1, -2], "float": [0.5, -1.25], "bool": [True, False]}


UNION_SCALAR_POOL = {
    "int": [0, 1, -7, 2 ** 70], "float": [0.5, -2.0, 1e300], "bool": [True, False],
    "str": ["", "a", "\u00e91"],
}


def seed_zoneinfo():
    # only if tz database is available
    try:
        POOLS["zoneinfo"].append(zoneinfo.ZoneInfo("Europe/Berlin"))
    except Exception:
        pass


seed_zoneinfo()


class Bounds:
    def __init__(self, maxlen=2, maxkeys=2, depth=6, poolmax=None, chain_wrap=False):
        self.chain_wrap = chain_wrap  # let a member of ChainMap.maps be a ChainMap itself (encode-form checks only)
        self.maxlen = maxlen
        self.maxkeys = maxkeys
        self.depth = depth
        self.poolmax = poolmax  # truncate leaf pools (for positions the obligation does not depend on)


class Ctx:
    def __init__(self, bounds=None, prefix=""):
        self.bounds = bounds or Bounds()
        self.vars = []  # (name, annotation-source, precondition-or-None)
        self.n = 0
        self.prefix = prefix
        self.rec = {}  # dataclass -> nesting count (self-referencing classes are unrolled once)

    def new(self, letter, ann, pre=None):
        name = "%s%s%d" % (self.prefix, letter, self.n)
        self.n += 1
        self.vars.append((name, ann, pre.replace("$", name) if pre else None))
        return name

    def cut(self, vals):
        if self.bounds.poolmax:
            return vals[: self.bounds.poolmax]
        return vals

    def sel(self, n):
        if n <= 1:
            return None
        return self.new("k", "int", "0 <= $ < %d" % n)

    def pin_from(self, start):
        """Pin the branching variables created since index `start` (lengths at max, Optionals non-None, keys
        present, selectors at 0): concretise what an obligation does not depend on."""
        import re as _re

        for j in range(start, len(self.vars)):
            name, ann, pre = self.vars[j]
            letter = _re.sub(r"\d+$", "", name)[-1]
            if letter == "n":
                mx = _re.search(r"<= (\d+)$", pre).group(1)
                pre = "%s == %s" % (name, mx)
            elif letter == "z":
                pre = "not %s" % name
            elif letter == "p":
                pre = name
            elif letter == "k":
                pre = "%s == 0" % name
            self.vars[j] = (name, ann, pre)

    def signature(self):
        return ", ".join("%s: %s" % (n, a) for n, a, _ in self.vars)

    def pres(self):
        return [p for _, _, p in self.vars if p]

    def argnames(self):
        return [n for n, _, _ in self.vars]


# ---------------------------------------------------------------- nodes
class Node:
    def make(self, env):
        raise NotImplementedError


class Scalar(Node):
    def __init__(self, name):
        self.name = name

    def make(self, env):
        return env[self.name]


class Const(Node):
    def __init__(self, v):
        self.v = v

    def make(self, env):
        return self.v


class Pool(Node):
    def __init__(self, sel, values):
        self.sel = sel
        self.values = values

    def make(self, env):
        if self.sel is None:
            return self.values[0]
        return self.values[pick(env[self.sel], len(self.values))]


class Opt(Node):
    def __init__(self, flag, inner):
        self.flag = flag
        self.inner = inner

    def make(self, env):
        if env[self.flag]:
            return None
        return self.inner.make(env)


class Uni(Node):
    def __init__(self, sel, members):
        self.sel = sel
        self.members = members

    def member_index(self, env):
        return 0 if self.sel is None else pick(env[self.sel], len(self.members))

    def make(self, env):
        return self.members[self.member_index(env)].make(env)


class Seq(Node):
    def __init__(self, ctor, length, elems):
        self.ctor = ctor
        self.length = length
        self.elems = elems

    def make(self, env):
        n = pick(env[self.length], len(self.elems) + 1)
        items = [self.elems[j].make(env) for j in range(n)]
        return self.ctor(items)


class Map(Node):
    def __init__(self, ctor, keys, flags, values):
        self.ctor = ctor
        self.keys = keys
        self.flags = flags
        self.values = values

    def make(self, env):
        d = {}
        for k, fl, v in zip(self.keys, self.flags, self.values):
            if env[fl]:
                d[k] = v.make(env)
        if self.ctor is dict:
            return d  # not dict(d): under tracing the dict() constructor may hand back a proxy whose .__class__ is not dict
        return self.ctor(d)


class ChainMapN(Node):
    def __init__(self, maps, wrap=None):
        self.maps = maps
        self.wrap = wrap

    def make(self, env):
        ms = [m.make(env) for m in self.maps]
        if self.wrap is not None and env[self.wrap]:
            ms[0] = collections.ChainMap(ms[0])  # a member of .maps may be any mapping, e.g. another ChainMap
        return collections.ChainMap(*ms)


class Tup(Node):
    def __init__(self, elems, ctor=tuple):
        self.elems = elems
        self.ctor = ctor

    def make(self, env):
        return self.ctor([e.make(env) for e in self.elems])


class Obj(Node):
    """dataclass / NamedTuple: ctor(**kwargs)"""

    def __init__(self, cls, fields):
        self.cls = cls
        self.fields = fields

    def make(self, env):
        return self.cls(**{k: n.make(env) for k, n in self.fields})


class TD(Node):
    def __init__(self, req, opt):
        self.req = req
        self.opt = opt

    def make(self, env):
        d = {}
        for k, n in self.req:
            d[k] = n.make(env)
        for k, fl, n in self.opt:
            if env[fl]:
                d[k] = n.make(env)
        return d


def _dd_factory(vt):
    vi = tinfo.info(vt)
    return vi.type if isinstance(vi.type, type) else None


def plan(t, ctx, depth=0, tvmap=None):
    ti = tinfo.info(t, tvmap)
    k = ti.kind
    B = ctx.bounds
    if depth > B.depth:
        raise RecursionError("plan depth")
    if k == "any":
        return Scalar(ctx.new("i", "int"))
    if k == "none":
        return Const(None)
    if k == "int":
        return Scalar(ctx.new("i", "int"))
    if k == "float":
        return Scalar(ctx.new("f", "float", "isfinite($)"))
    if k == "bool":
        return Scalar(ctx.new("b", "bool"))
    if k == "str":
        if ti.type is not str:
            vals = [ti.type("x"), ti.type("")]
            return Pool(ctx.sel(len(vals)), vals)
        return Scalar(ctx.new("s", "str", "len($) <= 3"))
    if k in POOLS:
        vals = ctx.cut(POOLS[k])
        return Pool(ctx.sel(len(vals)), vals)
    if k == "ip":
        vals = ctx.cut([ti.type(x) for x in IP_POOLS[ti.type]])
        return Pool(ctx.sel(len(vals)), vals)
    if k == "path":
        vals = ctx.cut([ti.type("/tmp/x"), ti.type("a/b.txt"), ti.type(".")])
        return Pool(ctx.sel(len(vals)), vals)
    if k == "stype" and __import__("dataclasses").is_dataclass(ti.type):
        return Obj(ti.type, [(name, plan(ft, ctx, depth + 1, tvmap)) for name, ft, f in tinfo.dc_fields(ti.type) if f.init])
    if k == "stype":
        return Tup([Scalar(ctx.new("i", "int"))], ctor=lambda xs, c=ti.type: c(xs[0]))
    if k == "enum":
        vals = list(ti.type)
        import enum as _enum
        if issubclass(ti.type, _enum.Flag) and len(vals) >= 2:
            vals = vals + [vals[0] | vals[1]]  # a multi-bit combination is a value of a Flag type too
        vals = ctx.cut(vals)
        return Pool(ctx.sel(len(vals)), vals)
    if k == "literal":
        vals = ctx.cut(list(ti.args))
        return Pool(ctx.sel(len(vals)), vals)
    if k == "optional":
        ii = tinfo.info(ti.args[0], tvmap)
        if ii.kind == "dataclass" and ctx.rec.get(ii.type, 0) >= 2:
            return Const(None)  # bound: a self-referencing class is nested at most once
        fl = ctx.new("z", "bool")
        return Opt(fl, plan(ti.args[0], ctx, depth + 1, tvmap))
    if k == "union":
        sel = ctx.sel(len(ti.args))
        members = []
        for a in ti.args:
            ak = tinfo.info(a, tvmap).kind
            if ak in UNION_SCALAR_POOL and tinfo.info(a, tvmap).type in (int, float, bool, str):
                # the generated union packer tests ``value.__class__ is int``; CrossHair's symbolic
                # scalars do not model ``.__class__`` (measured), so scalar union members are pooled
                vals = UNION_SCALAR_POOL[ak]
                members.append(Pool(ctx.sel(len(vals)), vals))
            else:
                members.append(plan(a, ctx, depth + 1, tvmap))
        return Uni(sel, members)
    if k == "seq":
        ei = tinfo.info(ti.args[0], tvmap)
        if ei.kind == "dataclass" and ctx.rec.get(ei.type, 0) >= 2:
            return Const(ti.type())  # bound: a self-referencing class is nested at most once
        ln = ctx.new("n", "int", "0 <= $ <= %d" % B.maxlen)
        return Seq(ti.type, ln, [plan(ti.args[0], ctx, depth + 1, tvmap) for _ in range(B.maxlen)])
    if k == "tuple_var":
        ln = ctx.new("n", "int", "0 <= $ <= %d" % B.maxlen)
        return Seq(tuple, ln, [plan(ti.args[0], ctx, depth + 1, tvmap) for _ in range(B.maxlen)])
    if k == "tuple_fixed":
        elems = []
        for a in ti.args:
            o = typing.get_origin(a)
            if o is typing.Unpack or getattr(o, "__name__", "") == "Unpack":
                inner = typing.get_args(a)[0]
                elems.append(("*", plan(inner, ctx, depth + 1, tvmap)))
            else:
                elems.append(("", plan(a, ctx, depth + 1, tvmap)))
        return StarTup(elems)
    if k == "map":
        ki = tinfo.info(ti.args[0], tvmap)
        if ki.kind in KEY_POOL:
            keys = KEY_POOL[ki.kind][: B.maxkeys]
        elif ki.kind == "any":
            keys = KEY_POOL["str"][: B.maxkeys]
        else:
            kc = Ctx()
            kp = plan(ti.args[0], kc, depth + 1, tvmap)
            if not isinstance(kp, Pool):
                raise TypeError("unsupported key type %r" % (ti.args[0],))
            keys = kp.values[: B.maxkeys]
        flags = [ctx.new("p", "bool") for _ in keys]
        values = [plan(ti.args[1], ctx, depth + 1, tvmap) for _ in keys]
        ctor = ti.type
        if ctor is collections.defaultdict:
            fac = _dd_factory(ti.args[1])
            ctor = (lambda d, fac=fac: collections.defaultdict(fac, d))
        return Map(ctor, keys, flags, values)
    if k == "chainmap":
        inner_t = typing.Dict[ti.args[0], ti.args[1]]
        return ChainMapN([plan(inner_t, ctx, depth + 1, tvmap) for _ in range(2)],
                         ctx.new("w", "bool") if B.chain_wrap else None)
    if k == "dataclass":
        tv = dict(tvmap or {})
        tv.update(ti.extra or {})
        fields = []
        ctx.rec[ti.type] = ctx.rec.get(ti.type, 0) + 1
        try:
            for name, ft, f in tinfo.dc_fields(ti.type):
                if not f.init:
                    continue
                fields.append((name, plan(ft, ctx, depth + 1, tv)))
        finally:
            ctx.rec[ti.type] -= 1
        return Obj(ti.type, fields)
    if k == "namedtuple":
        tvmap = tinfo.scope(ti, tvmap)
        return Obj(ti.type, [(n, plan(ft, ctx, depth + 1, tvmap)) for n, ft in tinfo.nt_fields(ti.type)])
    if k == "typeddict":
        tvmap = tinfo.scope(ti, tvmap)
        hints, req, opt = tinfo.td_keys(ti.type)
        r = [(kk, plan(hints[kk], ctx, depth + 1, tvmap)) for kk in req]
        o = []
        for kk in opt:
            fl = ctx.new("p", "bool")
            o.append((kk, fl, plan(hints[kk], ctx, depth + 1, tvmap)))
        return TD(r, o)
    raise TypeError("no plan for %r (%s)" % (t, k))


class StarTup(Node):
    def __init__(self, elems):
        self.elems = elems

    def make(self, env):
        out = []
        for star, e in self.elems:
            v = e.make(env)
            if star:
                out.extend(v)
            else:
                out.append(v)
        return tuple(out)


def make_plan(t, bounds=None, prefix=""):
    ctx = Ctx(bounds, prefix)
    node = plan(t, ctx)
    return ctx, node
