"""Independent normalisation of type hints (does not import mashumaro.core.meta)."""
import collections
import collections.abc
import dataclasses
import datetime
import decimal
import enum
import fractions
import ipaddress
import os
import pathlib
import re
import types
import typing
import uuid
import zoneinfo

import typing_extensions as te

NoneType = type(None)

SCALAR_KINDS = {
    int: "int", float: "float", bool: "bool", str: "str", NoneType: "none",
}
LEAF_KINDS = {
    bytes: "bytes", bytearray: "bytearray",
    datetime.datetime: "datetime", datetime.date: "date", datetime.time: "time",
    datetime.timedelta: "timedelta", datetime.timezone: "timezone",
    zoneinfo.ZoneInfo: "zoneinfo", uuid.UUID: "uuid",
    decimal.Decimal: "decimal", fractions.Fraction: "fraction",
    ipaddress.IPv4Address: "ip", ipaddress.IPv6Address: "ip",
    ipaddress.IPv4Network: "ip", ipaddress.IPv6Network: "ip",
    ipaddress.IPv4Interface: "ip", ipaddress.IPv6Interface: "ip",
    re.Pattern: "pattern", typing.Pattern: "pattern",
}
PATH_TYPES = (pathlib.PurePath, pathlib.Path, pathlib.PurePosixPath, pathlib.PosixPath,
              pathlib.PureWindowsPath)


class TI:
    __slots__ = ("kind", "type", "origin", "args", "extra")

    def __init__(self, kind, type_, origin=None, args=(), extra=None):
        self.kind = kind
        self.type = type_
        self.origin = origin
        self.args = args
        self.extra = extra

    def __repr__(self):
        return "TI(%s,%r)" % (self.kind, self.type)


def strip(t):
    """Remove wrappers that do not change the wire form: Annotated, Final, NewType,
    Required/NotRequired/ReadOnly, PEP 695 aliases."""
    while True:
        o = typing.get_origin(t)
        if o in (typing.Annotated, te.Annotated):
            t = typing.get_args(t)[0]
        elif o in (typing.Final, te.Final, te.Required, te.NotRequired, te.ReadOnly,
                   getattr(typing, "Required", None), getattr(typing, "NotRequired", None)):
            t = typing.get_args(t)[0]
        elif hasattr(t, "__supertype__"):
            t = t.__supertype__
        elif type(t).__name__ == "TypeAliasType":
            t = t.__value__
        elif t is te.LiteralString or t is getattr(typing, "LiteralString", None):
            return str
        else:
            return t


def subst(t, tvmap):
    """Substitute type variables inside a type expression (``List[T]`` with ``{T: date}`` -> ``List[date]``)."""
    if not tvmap:
        return t
    try:
        if t in tvmap:
            return tvmap[t]
    except TypeError:
        return t
    params = getattr(t, "__parameters__", None)
    if params and typing.get_origin(t) is not None:
        try:
            return t[tuple(tvmap.get(p, p) for p in params)]
        except Exception:
            return t
    return t


def own_tvmap(base, a, tvmap):
    """Type variables of a generic class (dataclass, NamedTuple, TypedDict) bound by subscription or subclassing,
    with the arguments themselves resolved in the enclosing scope."""
    tv = dict(inherited_tvmap(base))
    params = getattr(base, "__parameters__", ())
    for p, x in zip(params, a):
        tv[p] = subst(x, tvmap)
    return tv


def is_namedtuple(t):
    return isinstance(t, type) and issubclass(t, tuple) and hasattr(t, "_fields")


def is_typeddict(t):
    return isinstance(t, type) and issubclass(t, dict) and hasattr(t, "__required_keys__")


def info(t, tvmap=None):
    t = strip(t)
    try:
        if tvmap and t in tvmap:
            return info(tvmap[t], tvmap)
    except TypeError:
        pass
    if t is typing.Any:
        return TI("any", t)
    if t is None or t is NoneType:
        return TI("none", NoneType)
    if isinstance(t, typing.TypeVar):
        if t.__constraints__:
            return TI("union", t, args=tuple(t.__constraints__))
        if t.__bound__ is not None:
            return TI("optional", t, args=(t.__bound__,))
        return TI("any", t)
    o = typing.get_origin(t)
    a = typing.get_args(t)
    if o in (typing.Union, types.UnionType):
        non_none = [x for x in a if strip(x) is not NoneType]
        if len(a) == 2 and len(non_none) == 1:
            return TI("optional", t, args=(non_none[0],))
        return TI("union", t, args=a)
    if o in (typing.Literal, te.Literal):
        vals = []
        for x in a:
            if typing.get_origin(x) in (typing.Literal, te.Literal):
                vals += list(typing.get_args(x))
            else:
                vals.append(x)
        return TI("literal", t, args=tuple(vals))
    base = o if o is not None else t
    if not isinstance(base, type):
        raise TypeError("unsupported type %r" % (t,))
    if base in SCALAR_KINDS:
        return TI(SCALAR_KINDS[base], base)
    if base in LEAF_KINDS:
        return TI(LEAF_KINDS[base], base)
    if issubclass(base, enum.Enum):
        return TI("enum", base)
    if hasattr(base, "_serialize") and hasattr(base, "_deserialize"):
        return TI("stype", base)
    if dataclasses.is_dataclass(base):
        tv = {te.Self: base}
        if hasattr(typing, "Self"):
            tv[typing.Self] = base
        tv.update(own_tvmap(base, a, tvmap))
        return TI("dataclass", base, origin=base, args=a, extra=tv)
    if issubclass(base, os.PathLike) or base is os.PathLike:
        return TI("path", pathlib.PurePath if base is os.PathLike else base)
    if is_namedtuple(base):
        return TI("namedtuple", base, args=a, extra=own_tvmap(base, a, tvmap))
    if is_typeddict(base):
        return TI("typeddict", base, args=a, extra=own_tvmap(base, a, tvmap))
    if base is tuple:
        if not a:
            if t is tuple or t is typing.Tuple:
                return TI("tuple_var", tuple, args=(typing.Any,))
            return TI("tuple_fixed", tuple, args=())
        if len(a) == 2 and a[1] is Ellipsis:
            return TI("tuple_var", tuple, args=(a[0],))
        if a == ((),):
            return TI("tuple_fixed", tuple, args=())
        return TI("tuple_fixed", tuple, args=a)
    if issubclass(base, str):
        return TI("str", base)
    a0 = a[0] if a else typing.Any
    ti = _container(base, a, a0)
    if ti is not None:
        ti.origin = base
        return ti
    raise TypeError("unsupported type %r" % (t,))


def _container(base, a, a0):
    if base is collections.ChainMap:
        return TI("chainmap", base, args=(a0, a[1] if len(a) > 1 else typing.Any))
    if base is collections.Counter:
        return TI("map", collections.Counter, args=(a0, int))
    if base is collections.OrderedDict:
        return TI("map", collections.OrderedDict, args=(a0, a[1] if len(a) > 1 else typing.Any))
    if base is collections.defaultdict:
        return TI("map", collections.defaultdict, args=(a0, a[1] if len(a) > 1 else typing.Any))
    if base is types.MappingProxyType:
        return TI("map", types.MappingProxyType, args=(a0, a[1] if len(a) > 1 else typing.Any))
    if issubclass(base, collections.abc.Mapping):
        return TI("map", dict, args=(a0, a[1] if len(a) > 1 else typing.Any))
    if issubclass(base, collections.deque):
        return TI("seq", collections.deque, args=(a0,))
    if issubclass(base, list):
        return TI("seq", list, args=(a0,))
    if issubclass(base, frozenset):
        return TI("seq", frozenset, args=(a0,))
    if issubclass(base, collections.abc.Set):
        return TI("seq", set, args=(a0,))
    if issubclass(base, collections.abc.Sequence):
        return TI("seq", list, args=(a0,))
    return None


def inherited_tvmap(cls):
    """type variables of generic bases bound by subclassing: class EnvStatus(Env[HTTPStatus]) binds Env's parameter"""
    out = {}
    for klass in cls.__mro__:
        for b in getattr(klass, "__orig_bases__", ()):
            o = typing.get_origin(b)
            if o is None or o is typing.Generic:
                continue
            for p, x in zip(getattr(o, "__parameters__", ()), typing.get_args(b)):
                out.setdefault(p, out.get(x, x) if isinstance(x, typing.TypeVar) else x)
    return out


def stype_annotations(cls):
    """(serialized form annotation, input annotation) of a SerializableType declared with use_annotations=True, else None"""
    if not getattr(cls, "__use_annotations__", False):
        return None
    ser = typing.get_type_hints(cls._serialize, include_extras=True).get("return", typing.Any)
    hints = typing.get_type_hints(cls._deserialize, include_extras=True)
    hints.pop("return", None)
    de = next(iter(hints.values()), typing.Any)
    return ser, de


def scope(ti, tvmap):
    """Type-variable scope inside a generic NamedTuple / TypedDict / dataclass node."""
    if not ti.extra:
        return tvmap
    tv = dict(tvmap or {})
    tv.update(ti.extra)
    return tv


def dc_fields(cls, tvmap=None):
    """[(name, type, field)] of the init-able dataclass fields, hints resolved."""
    hints = typing.get_type_hints(cls, include_extras=True)
    out = []
    for f in dataclasses.fields(cls):
        out.append((f.name, hints[f.name], f))
    return out


def td_keys(td):
    hints = typing.get_type_hints(td, include_extras=True)
    req = [k for k in hints if k in td.__required_keys__]
    opt = [k for k in hints if k in td.__optional_keys__]
    return hints, req, opt


def nt_fields(nt):
    hints = typing.get_type_hints(nt, include_extras=True)
    return [(f, hints.get(f, typing.Any)) for f in nt._fields]
