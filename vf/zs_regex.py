"""ZS: translate a Python regular expression (the subset mashumaro uses for UTC offsets) into a z3 regular language and
decide language inclusions.  The pattern text is read from /repo's current source on every run."""
import sre_parse
import time

import z3


def to_z3(pattern):
    """-> z3 regex for the FULL-MATCH language of pattern (anchors ^ $ at the ends are honoured, elsewhere unsupported)"""
    tree = sre_parse.parse(pattern)
    items = list(tree)
    import sre_constants as C

    if items and items[0][0] == C.AT and items[0][1] == C.AT_BEGINNING:
        items = items[1:]
    if items and items[-1][0] == C.AT and items[-1][1] in (C.AT_END, C.AT_END_STRING):
        items = items[:-1]
    return _seq(items)


def _seq(items):
    parts = [_one(op, arg) for op, arg in items]
    if not parts:
        return z3.Re(z3.StringVal(""))
    if len(parts) == 1:
        return parts[0]
    return z3.Concat(*parts)


def _one(op, arg):
    import sre_constants as C

    if op == C.LITERAL:
        return z3.Re(z3.StringVal(chr(arg)))
    if op == C.IN:
        alts = []
        for o, a in arg:
            if o == C.LITERAL:
                alts.append(z3.Re(z3.StringVal(chr(a))))
            elif o == C.RANGE:
                alts.append(z3.Range(chr(a[0]), chr(a[1])))
            else:
                raise NotImplementedError("regex class item %r" % (o,))
        return alts[0] if len(alts) == 1 else z3.Union(*alts)
    if op == C.SUBPATTERN:
        return _seq(list(arg[3]))
    if op in (C.MAX_REPEAT, C.MIN_REPEAT):
        lo, hi, sub = arg
        r = _seq(list(sub))
        if lo == 0 and hi == 1:
            return z3.Option(r)
        if hi == C.MAXREPEAT:
            return z3.Concat(*([r] * lo + [z3.Star(r)])) if lo else z3.Star(r)
        return z3.Loop(r, lo, hi)
    if op == C.BRANCH:
        return z3.Union(*[_seq(list(b)) for b in arg[1]])
    raise NotImplementedError("regex op %r" % (op,))


def tzname_language():
    """strings datetime.timezone.tzname(None) can produce for whole-minute offsets: 'UTC' or 'UTC±hh:mm', hh 00-23, mm 00-59"""
    d = lambda a, b: z3.Range(a, b)
    hh = z3.Union(z3.Concat(d("0", "1"), d("0", "9")), z3.Concat(z3.Re(z3.StringVal("2")), d("0", "3")))
    mm = z3.Concat(d("0", "5"), d("0", "9"))
    sign = z3.Union(z3.Re(z3.StringVal("+")), z3.Re(z3.StringVal("-")))
    off = z3.Concat(sign, hh, z3.Re(z3.StringVal(":")), mm)
    return z3.Concat(z3.Re(z3.StringVal("UTC")), z3.Option(off))


def included(sub, sup, timeout_ms=60000):
    """is L(sub) a subset of L(sup)?  -> ('unsat'|'sat'|'unknown', witness, seconds)"""
    s = z3.String("s")
    sol = z3.Solver()
    sol.set("timeout", timeout_ms)
    sol.add(z3.InRe(s, sub), z3.Not(z3.InRe(s, sup)))
    t0 = time.time()
    r = str(sol.check())
    dt = time.time() - t0
    if r == "sat":
        return "sat", sol.model()[s].as_string(), dt
    return r, None, dt


def check_tz_patterns():
    """[(where, pattern, verdict, witness, seconds)] for both copies of the pattern in /repo"""
    import importlib

    out = []
    for modname, attr in (("mashumaro.core.helpers", "UTC_OFFSET_PATTERN"), ("mashumaro.jsonschema.schema", "UTC_OFFSET_PATTERN")):
        pat = getattr(importlib.import_module(modname), attr)
        try:
            r, w, dt = included(tzname_language(), to_z3(pat))
        except NotImplementedError as e:
            r, w, dt = "unknown", str(e), 0.0
        out.append((modname + "." + attr, pat, r, w, dt))
    # vacuity guard: the inclusion must FAIL for a pattern that forgets the minus sign
    r, w, dt = included(tzname_language(), to_z3(r"^UTC(([+][0-2][0-9]):([0-5][0-9]))?$"))
    out.append(("reachability-twin", "pattern without '-'", r, w, dt))
    return out
